"""F16: _ReusablePoolExecutor._resize() calls _adjust_process_count() without holding
processes_management_lock.  _adjust_process_count() ends with a debug f-string that iterates
self._processes.items(); if a worker's idle timeout is processed by the manager thread (which
pops it from the same dict) during that iteration, get_reusable_executor() raises
"RuntimeError: dictionary changed size during iteration".
The only timing help (demo only) is a slow LokyProcess.name property, to widen the iteration.
Exit 1 if the RuntimeError escapes get_reusable_executor, 0 otherwise."""
import os, sys, threading, time
threading.Timer(50, lambda: os._exit(3)).start()
from loky import get_reusable_executor
from loky.backend.process import LokyProcess

def main():
    T = 1.5
    e = get_reusable_executor(max_workers=2, timeout=T)
    list(e.map(time.sleep, [0.05, 0.05]))          # both workers spawned, idle from now on
    t_idle = time.time()
    orig = LokyProcess.name
    slow = {"on": False}
    def name(self):
        if slow["on"] and threading.current_thread() is threading.main_thread():
            time.sleep(0.4)
        return orig.fget(self)
    LokyProcess.name = property(name, orig.fset)
    time.sleep(max(0, t_idle + T - 0.35 - time.time()))
    slow["on"] = True
    try:
        e2 = get_reusable_executor(max_workers=3, timeout=T)
        print("resize returned, workers:", len(e2._processes))
        rc = 0
    except RuntimeError as ex:
        print("get_reusable_executor raised:", repr(ex))
        rc = 1
    slow["on"] = False
    get_reusable_executor(max_workers=1, timeout=T, kill_workers=True).shutdown(kill_workers=True)
    os._exit(rc)

if __name__ == "__main__":
    main()
