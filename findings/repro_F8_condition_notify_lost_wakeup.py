"""F8: loky.backend.synchronize.Condition.notify() can wake nobody although an untimed (here:
long-timeout) waiter is asleep, when another waiter's timeout expires around the notifier's
_wait_semaphore.release().  Stress reproduction with real kernel semaphores and real threads:
prints the number of iterations in which notify() returned, the short-timeout waiter returned
False and the long waiter was NOT woken (it timed out 1.5 s later).  Exit 1 if observed."""
import sys, threading, time, random, os
from loky.backend.synchronize import Condition

def one(delay, short):
    c = Condition()
    res = {}
    ready = threading.Barrier(3)
    def waiter(name, to):
        with c:
            ready.wait()
            res[name] = c.wait(to)
    def notifier():
        ready.wait()
        time.sleep(delay)
        with c:
            res["sleepers_at_notify"] = (c._sleeping_count._semlock._get_value()
                                         - c._woken_count._semlock._get_value())
            c.notify()
            res["notified"] = True
    # the barrier is passed while holding the lock only by one waiter at a time -> use events
    return c, res, waiter, notifier

def run_iter(delay, short):
    c = Condition()
    res = {}
    a_in = threading.Event(); b_in = threading.Event(); b_out = threading.Event()
    def wa():
        with c:
            a_in.set()
            res["A"] = c.wait(short)
    def wb():
        with c:
            b_in.set()
            res["B"] = c.wait(5.0)
        b_out.set()
    def n():
        a_in.wait(); b_in.wait()
        time.sleep(delay)
        with c:
            res["asleep"] = (c._sleeping_count._semlock._get_value()
                             - c._woken_count._semlock._get_value())
            c.notify()
        # notify() returned: within 50 ms either A was woken (True) or B must be
        res["B_woken_in_time"] = b_out.wait(0.05)
        with c:
            c.notify_all()          # release whoever is left
    ts = [threading.Thread(target=f) for f in (wb, wa, n)]
    for t in ts: t.start()
    for t in ts: t.join()
    return res

def main():
    budget = float(sys.argv[1]) if len(sys.argv) > 1 else 120.0
    t0 = time.time(); n = 0; hits = 0
    while time.time() - t0 < budget:
        short = random.choice([0.002, 0.003, 0.005])
        delay = max(0.0, short + random.uniform(-0.0015, 0.0005))
        r = run_iter(delay, short)
        n += 1
        if r.get("A") is False and r.get("B_woken_in_time") is False and r.get("asleep", 0) >= 2:
            hits += 1
            print("LOST WAKEUP:", r, "short", short, "delay", round(delay, 5), flush=True)
            if hits >= 2: break
    print(f"iterations={n} lost_wakeups={hits}")
    os._exit(1 if hits else 0)
main()
