"""F24: SemLock.__init__ creates the named semaphore and only then registers its name with the
resource tracker.  A process that dies (SIGKILL) between the two leaves a semaphore that nobody
will ever unlink: the tracker never heard of it.
usage: PYTHONPATH=<loky tree> python F24_...py   (exit 0 = namespace restored)"""
import glob
import os
import subprocess
import sys
import time

CHILD = r'''
import os, signal, importlib
syn = importlib.import_module("loky.backend.synchronize")
from loky.backend import resource_tracker as rt
a = syn.Lock()                     # tracker running, one semaphore registered normally
orig = rt.register
def register(name, rtype):         # the process dies right before the registration message
    os.kill(os.getpid(), signal.SIGKILL)
rt.register = register
b = syn.Lock()
'''


def main():
    p = subprocess.Popen([sys.executable, "-c", CHILD], stdin=subprocess.DEVNULL)
    p.wait(60)
    pat = f"/dev/shm/sem.loky-{p.pid}-*"
    t0 = time.time()
    left = glob.glob(pat)
    while left and time.time() - t0 < 10:
        time.sleep(0.2)
        left = glob.glob(pat)
    print("child exit", p.returncode, "semaphores left 10 s after its death:", left)
    for x in left:
        os.unlink(x)
    sys.exit(1 if left else 0)


if __name__ == "__main__":
    main()
