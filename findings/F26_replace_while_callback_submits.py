"""F26: get_reusable_executor(<changed arguments>) replaces the current executor: it holds the
module-wide executor lock while it waits for the old instance to shut down (join of the manager
thread).  If a pending future of the old instance has a done-callback that calls
executor.submit() (retry / chaining, supported and tested on its own), that submit needs the
very same lock: manager thread and caller wait for each other for ever.
usage: PYTHONPATH=<loky tree> python F26_...py   (exit 0 = the call returned)"""
import os
import threading
import time

from loky import get_reusable_executor

state = {}


def main():
    t = threading.Timer(40, lambda: os._exit(3))
    t.daemon = True
    t.start()
    e = get_reusable_executor(max_workers=2, timeout=30)
    e.submit(time.sleep, 0.01).result()

    def cb(fut):
        try:
            e.submit(time.sleep, 0.01)          # chaining from a callback
            state["resubmitted"] = True
        except Exception as ex:                 # noqa  (refused after shutdown: fine)
            state["resubmitted"] = type(ex).__name__
    a = e.submit(time.sleep, 1.0)
    a.add_done_callback(cb)

    def replace():
        get_reusable_executor(max_workers=2, timeout=31)     # changed argument: replacement
        state["returned"] = True
    th = threading.Thread(target=replace, daemon=True)
    th.start()
    th.join(15)
    print("replacement returned:", state.get("returned", False), "- callback:", state.get("resubmitted"))
    if not state.get("returned"):
        for p in list(e._processes.values()):
            os.kill(p.pid, 9)
        os._exit(1)
    print("PASS")
    os._exit(0)


if __name__ == "__main__":
    main()
