"""F17: a worker crashes while get_reusable_executor() is inside _resize (growing): the manager
thread runs terminate_broken (kills and forgets every worker) and _resize then spawns new
workers into the emptied pool.  Nobody ever tells them to stop: the manager's final join (or
its shutdown_workers sentinels, if the crashed worker held the call-queue lock) blocks for
ever, so the broken executor can never be shut down / replaced.
Uses the LOKY_VERIF pause hook `resize.after_wait_jobs` to hold _resize while the crash is
being handled.  Exit 1 if shutdown(wait=True) of the broken executor hangs, 0 otherwise."""
import json, os, signal, sys, tempfile, threading, time
tmp = tempfile.mkdtemp(prefix="f17_")
tok = os.path.join(tmp, "tok")
tok2 = os.path.join(tmp, "tok2")
plan = os.path.join(tmp, "plan.json")
json.dump([{"label": "resize.after_wait_jobs", "process": "parent", "nth": 1,
            "action": "pause:" + tok},
           {"label": "mgr.shutdown_workers", "process": "parent", "nth": 1,
            "action": "pause:" + tok2}], open(plan, "w"))
os.environ["LOKY_VERIF"] = "1"
os.environ["LOKY_VERIF_PLAN"] = plan
threading.Timer(60, lambda: os._exit(3)).start()
from loky import get_reusable_executor

def helper(e):
    while not os.path.exists(tok + ".reached"):
        time.sleep(0.01)
    # the idle worker that holds the call-queue read lock sits in a pipe read
    pids = list(e._processes)
    def wchan(p):
        try: return open(f"/proc/{p}/wchan").read()
        except OSError: return ""
    holder = [p for p in pids if "pipe" in wchan(p)] or pids
    os.kill(holder[0], signal.SIGKILL)               # crash while _resize is paused
    while not os.path.exists(tok2 + ".reached"):     # manager: broken, workers killed, about to
        time.sleep(0.01)                             # tear the executor down
    open(tok + ".go", "w").close()                   # _resize resumes: spawns into the emptied pool
    time.sleep(1.5)
    open(tok2 + ".go", "w").close()                  # manager resumes its tear-down

if __name__ == "__main__":
    e = get_reusable_executor(max_workers=2, timeout=None)
    assert e.submit(abs, -2).result(timeout=20) == 2
    threading.Thread(target=helper, args=(e,), daemon=True).start()
    try:
        e2 = get_reusable_executor(max_workers=3, timeout=None)      # -> _resize, paused
    except BaseException as ex:
        print("get_reusable_executor raised", repr(ex)); e2 = e
    print("after resize: same object:", e2 is e, "broken:", type(e._flags.broken).__name__,
          "workers registered:", len(e._processes))
    done = threading.Event()
    threading.Thread(target=lambda: (e.shutdown(wait=True), done.set()), daemon=True).start()
    ok = done.wait(10)
    print("shutdown(wait=True) of the broken executor returned:", ok,
          "| manager thread alive:", any(t.name == "ExecutorManagerThread" for t in threading.enumerate()))
    for pid in list(e._processes or {}):
        try: os.kill(pid, 9)
        except OSError: pass
    os._exit(0 if ok else 1)
