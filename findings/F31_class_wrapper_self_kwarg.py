"""F31: the class wrapper built by wrap_non_picklable_objects(cls) has
__init__(self, *args, **kwargs): a constructor keyword argument named 'self' meant for the
wrapped class collides with it (twin of F28 on the construction path).
usage: PYTHONPATH=<loky tree> python F31_...py"""
import sys
from loky import wrap_non_picklable_objects


class Node:
    def __init__(this, self=None, x=1):      # a parameter called 'self' that is not the receiver
        this.got = ("got", self, x)


W = wrap_non_picklable_objects(Node)
try:
    ok = W(self=3).got == Node(self=3).got
except TypeError as e:
    print("FAIL:", e)
    ok = False
print("PASS" if ok else "FAIL")
sys.exit(0 if ok else 1)
