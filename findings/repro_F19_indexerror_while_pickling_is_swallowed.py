"""F19: the queue feeder thread wraps its whole send loop in `except IndexError: pass` (meant for
the empty buffer): a task whose arguments raise IndexError while being pickled is dropped
silently, its future never resolves (C04: it should fail with PicklingError).
Exit 1 if the future is still pending after 8 s, 0 if it failed with PicklingError."""
import os, sys, threading
threading.Timer(40, lambda: os._exit(3)).start()
from concurrent.futures import TimeoutError as TE
from pickle import PicklingError
from loky.process_executor import ProcessPoolExecutor
class Arg:
    def __reduce__(self):
        raise IndexError("raised while pickling")
if __name__ == "__main__":
    e = ProcessPoolExecutor(max_workers=1)
    assert e.submit(abs, -1).result(timeout=20) == 1
    f = e.submit(id, Arg())
    try:
        f.result(timeout=8); rc = 2
    except TE:
        print("future still pending: the task was silently dropped"); rc = 1
    except PicklingError as ex:
        print("PicklingError, cause:", type(ex.__cause__).__name__); rc = 0
    ok = e.submit(abs, -3).result(timeout=20) == 3
    print("pool still usable:", ok)
    e.shutdown(wait=False, kill_workers=True)
    os._exit(rc)
