"""F27: the documented decorator use of wrap_non_picklable_objects on a function that calls
itself: the function's global name now refers to the wrapper, whose __reduce__ starts a fresh
cloudpickle.dumps of the function, which meets the wrapper again... the plain-pickle round trip
dies with PicklingError (excessively deep recursion).
usage: PYTHONPATH=<loky tree> python F27_...py   (exit 0 = round trip works)"""
import pickle
import sys

SRC = '''
from loky import wrap_non_picklable_objects
@wrap_non_picklable_objects
def fact(n):
    return 1 if n <= 1 else n * fact(n - 1)
'''
ns = {"__name__": "__main_like__"}
exec(compile(SRC, "<script>", "exec"), ns)
try:
    f2 = pickle.loads(pickle.dumps(ns["fact"]))
    ok = f2(5) == 120
    print("round trip ok, fact(5) =", f2(5))
except BaseException as e:      # noqa
    print("FAIL:", type(e).__name__, str(e)[:160])
    ok = False
sys.exit(0 if ok else 1)
