"""F10: a future cancelled while still in the work-id backlog + a worker crash => the manager
thread dies with InvalidStateError in terminate_broken(); the other futures stay pending.
Run with PYTHONPATH=<tree>: exits 1 on the pinned tree, 0 once fixed."""
import os, signal, sys, time, threading
from loky.process_executor import ProcessPoolExecutor
threading.Timer(40, lambda: os._exit(3)).start()

def main():
    e = ProcessPoolExecutor(max_workers=1)
    fs = [e.submit(time.sleep, 3) for _ in range(6)]   # 1 running, 3 queued, 2 in the backlog
    time.sleep(1.0)
    assert fs[-2].cancel(), "backlogged future should be cancellable"
    pid = list(e._processes)[0]
    os.kill(pid, signal.SIGKILL)
    time.sleep(3)
    mt = e._executor_manager_thread
    undone = [i for i, f in enumerate(fs) if not f.done()]
    print("pending futures:", undone, "broken:", e._flags.broken is not None)
    ok = not undone
    for q in list(e._processes):
        try:
            os.kill(q, signal.SIGKILL)
        except OSError:
            pass
    os._exit(0 if ok else 1)

if __name__ == "__main__":
    main()
