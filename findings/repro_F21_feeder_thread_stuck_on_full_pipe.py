"""F21: shutdown(kill_workers=True) (or a broken pool) while the queue feeder thread is blocked
writing a large task to a full call-queue pipe: the workers are dead, the parent keeps the read
end open, so the feeder thread stays blocked for ever; every such lifecycle leaks one thread,
the call-queue pipe (2 fds) and 3 named semaphores.
Exit 1 if the counts grow between 1 and 4 lifecycles, 0 otherwise."""
import gc, glob, os, sys, threading, time
wd = threading.Timer(100, lambda: os._exit(3)); wd.daemon = True; wd.start()
import multiprocessing
from loky.process_executor import ProcessPoolExecutor

def lifecycle():
    e = ProcessPoolExecutor(max_workers=1)
    big = b"x" * (1 << 20)
    fs = [e.submit(time.sleep, 30)] + [e.submit(len, big) for _ in range(3)]
    time.sleep(0.5)
    e.shutdown(wait=True, kill_workers=True)
    del e, fs
    gc.collect()

def account():
    time.sleep(0.5); multiprocessing.active_children(); gc.collect()
    return dict(threads=sorted(t.name for t in threading.enumerate() if t.name == "QueueFeederThread"),
                fds=len(os.listdir("/proc/self/fd")),
                sems=len(glob.glob(f"/dev/shm/sem.loky-{os.getpid()}-*")))

if __name__ == "__main__":
    lifecycle(); a = account()
    for _ in range(3): lifecycle()
    b = account()
    print("after 1 lifecycle:", a); print("after 4 lifecycles:", b)
    grew = len(b["threads"]) > len(a["threads"]) or b["fds"] > a["fds"] or b["sems"] > a["sems"]
    os._exit(1 if grew else 0)
