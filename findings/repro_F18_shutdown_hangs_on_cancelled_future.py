"""F18: when the only pending work items are futures that were cancelled before the manager
thread dequeued them, the manager removes them in add_call_item_to_queue() *after* its
"nothing pending -> exit" check and then waits for ever: shutdown(wait=True) hangs.
(CPython's concurrent.futures.process calls add_call_item_to_queue() before that check.)
Exit 1 if shutdown(wait=True) has not returned after 8 s in any of 20 rounds, else 0."""
import os, sys, threading, time
threading.Timer(120, lambda: os._exit(3)).start()
from loky.process_executor import ProcessPoolExecutor

def one_round():
    e = ProcessPoolExecutor(max_workers=1)
    assert e.submit(abs, -1).result(timeout=20) == 1      # manager started and idle
    time.sleep(0.05)
    f = e.submit(time.sleep, 0)
    cancelled = f.cancel()
    done = threading.Event()
    t = threading.Thread(target=lambda: (e.shutdown(wait=True), done.set()), daemon=True)
    t.start()
    ok = done.wait(8)
    if not ok:
        for pid in list(e._processes or {}):
            try: os.kill(pid, 9)
            except OSError: pass
    return cancelled, ok

if __name__ == "__main__":
    hung = 0
    for i in range(20):
        cancelled, ok = one_round()
        if not ok:
            hung += 1
            print(f"round {i}: cancel() -> {cancelled}; shutdown(wait=True) still blocked after 8 s")
            break
    print("hangs:", hung)
    os._exit(1 if hung else 0)
