"""F14: the worker's nesting depth is set after the initializer has run, so an executor created
by an initializer is numbered as if it were at depth 0 (and the LOKY_MAX_DEPTH bound does not
apply to it).  Exit 1 on the pinned tree, 0 once fixed."""
import os, sys, threading
threading.Timer(40, lambda: os._exit(3)).start()
from loky import process_executor as pe
from loky.process_executor import ProcessPoolExecutor
def init():
    pe._SEEN_BY_INIT = pe._CURRENT_DEPTH
def get_seen():
    return [getattr(pe, "_SEEN_BY_INIT", None)], pe._CURRENT_DEPTH
if __name__ == "__main__":
    e = ProcessPoolExecutor(max_workers=1, initializer=init)
    seen, depth = e.submit(get_seen).result(timeout=20)
    print("depth seen by the initializer:", seen, "depth seen by a task:", depth)
    e.shutdown()
    os._exit(0 if seen == [1] and depth == 1 else 1)
