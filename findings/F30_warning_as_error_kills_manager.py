"""F30: run with warnings turned into errors (python -W error::UserWarning, pytest -W error).  A
worker leaves on its idle timeout while a job is pending (slow-to-pickle argument): the manager
thread wants to warn "A worker stopped while some jobs were given to the executor" *before* it
re-spawns the worker; the warning raises, the manager thread dies, nobody re-spawns, the future
never resolves and the pool is not flagged broken.
usage: PYTHONPATH=<loky tree> python -W error::UserWarning F30_...py   (exit 0 = task completed)"""
import os
import sys
import threading
import time
import warnings

warnings.simplefilter("error", UserWarning)
from loky.process_executor import ProcessPoolExecutor   # noqa: E402


class Slow:
    def __reduce__(self):
        time.sleep(1.5)            # the idle worker (timeout 0.4 s) leaves meanwhile
        return (int, (42,))


def ident(x):
    return x


def main():
    t = threading.Timer(40, lambda: os._exit(3))
    t.daemon = True
    t.start()
    e = ProcessPoolExecutor(1, timeout=0.4)
    assert e.submit(ident, 1).result(20) == 1
    f = e.submit(ident, Slow())
    try:
        r = f.result(15)
        print("task completed:", r)
        ok = r == 42
    except BaseException as ex:      # noqa
        print("FAIL:", type(ex).__name__, ex, "- manager thread alive:",
              e._executor_manager_thread.is_alive(), "- broken:", e._flags.broken)
        ok = False
    for p in list(e._processes.values()):
        try:
            os.kill(p.pid, 9)
        except OSError:
            pass
    os._exit(0 if ok else 1)


if __name__ == "__main__":
    main()
