"""F29: shutdown(wait=False, kill_workers=True) followed by a plain shutdown(wait=True) of the
same executor: the second call passes kill_workers=False, which overwrites the pending kill
request before the manager thread has honoured it; the manager then waits for the running tasks
instead of killing them (C06: completes in time independent of the running tasks).
usage: PYTHONPATH=<loky tree> python F29_...py   (exit 0 = forced shutdown stayed forced)"""
import os
import threading
import time

from loky.process_executor import ProcessPoolExecutor, ShutdownExecutorError


def main():
    t = threading.Timer(60, lambda: os._exit(3))
    t.daemon = True
    t.start()
    bad = 0
    for rnd in range(5):
        e = ProcessPoolExecutor(2)
        e.submit(time.sleep, 0.01).result()
        fs = [e.submit(time.sleep, 8) for _ in range(3)]
        time.sleep(0.2)
        pids = list(e._processes)
        t0 = time.time()
        e.shutdown(wait=False, kill_workers=True)
        e.shutdown(wait=True)
        dt = time.time() - t0
        kinds = [type(f.exception()).__name__ if f.done() and not f.cancelled() and f.exception()
                 else ("result" if f.done() else "pending") for f in fs]
        print(f"round {rnd}: both shutdown calls returned after {dt:.2f}s, futures {kinds}")
        if dt > 4 or "result" in kinds:
            bad += 1
            for p in pids:
                try:
                    os.kill(p, 9)
                except OSError:
                    pass
            break
    print("FAIL: the forced shutdown was downgraded to a graceful one" if bad else "PASS")
    os._exit(1 if bad else 0)


if __name__ == "__main__":
    main()
