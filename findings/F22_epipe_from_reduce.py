"""F22: an argument whose pickling raises an OSError with errno EPIPE makes the feeder thread of
the call queue return silently (Queue._feed treats every EPIPE as "the readers are gone"):
that future and every later one never resolve, the pool is not flagged broken.
usage: PYTHONPATH=<loky tree> python F22_epipe_from_reduce.py   (exit 0 = property holds)"""
import errno
import os
import sys
import threading

from loky.process_executor import ProcessPoolExecutor


class Arg:
    def __reduce__(self):
        raise BrokenPipeError(errno.EPIPE, "Broken pipe (raised while pickling the argument)")


def ident(x):
    return x


def main():
    t = threading.Timer(40, lambda: os._exit(3))
    t.daemon = True
    t.start()
    e = ProcessPoolExecutor(1)
    a = e.submit(ident, 1)
    b = e.submit(ident, Arg())
    c = e.submit(ident, 3)
    assert a.result(20) == 1
    try:
        b.result(10)
        print("FAIL: b gave a value")
        os._exit(1)
    except TimeoutError:
        print("FAIL: the future of the unpicklable task never resolved; c done:", c.done())
        for p in list(e._processes.values()):
            os.kill(p.pid, 9)
        os._exit(1)
    except BaseException as ex:   # noqa
        print("b failed with", type(ex).__name__, "- cause", type(ex.__cause__).__name__)
    assert c.result(20) == 3
    e.shutdown()
    print("PASS")
    os._exit(0)


if __name__ == "__main__":
    main()
