"""F13: submit() woke the manager thread *before* re-spawning the workers: after the workers
idled out, the manager could go back to sleep watching no sentinel of the new worker, whose
crash was then never detected (future pending for ever).  Exit 1 if the future is still
pending after 10 s (pinned tree), 0 if it fails with a broken-pool error."""
import os, sys, time, threading
threading.Timer(45, lambda: os._exit(3)).start()
from concurrent.futures import TimeoutError as TE
from loky.process_executor import ProcessPoolExecutor, BrokenProcessPool
if __name__ == "__main__":
    e = ProcessPoolExecutor(max_workers=1, timeout=0.5)
    assert e.submit(abs, -1).result(timeout=20) == 1
    time.sleep(2.5)                                   # the worker idles out
    f = e.submit(os._exit, 3)                         # re-spawn; the new worker dies at once
    try:
        f.result(timeout=10)
        rc = 2
    except TE:
        print("future still pending 10 s after its worker died: death not detected")
        rc = 1
    except BrokenProcessPool as ex:
        print("detected:", type(ex).__name__)
        rc = 0
    for pid in list(e._processes):
        try: os.kill(pid, 9)
        except OSError: pass
    os._exit(rc)
