"""F23: the call queue of the reusable executor has 2*cpu_count()+1 slots whatever max_workers
is.  With max_workers > 2*cpu_count()+1 and that many long tasks pending, the manager thread
fills the queue, finds it full and sleeps; workers taking items free slots but nothing wakes the
manager before the first *result*: only 2*cpu_count()+1 tasks run simultaneously although
max_workers idle workers exist (C08, second clause).
usage: LOKY_MAX_CPU_COUNT=1 PYTHONPATH=<loky tree> python F23_...py   (exit 0 = property holds)"""
import os
import sys
import threading
import time

os.environ.setdefault("LOKY_MAX_CPU_COUNT", "1")
from loky import get_reusable_executor, cpu_count   # noqa: E402


def long_task(i, d, t):
    open(os.path.join(d, f"in_{i}"), "w").close()
    time.sleep(t)
    return i


def main():
    import tempfile
    t = threading.Timer(60, lambda: os._exit(3))
    t.daemon = True
    t.start()
    n = 2 * cpu_count() + 1 + 2
    d = tempfile.mkdtemp()
    e = get_reusable_executor(max_workers=n, timeout=30)
    list(e.map(abs, range(n)))            # all workers are up
    fs = [e.submit(long_task, i, d, 4.0) for i in range(n)]
    time.sleep(2.0)
    inside = len(os.listdir(d))
    print(f"cpu_count={cpu_count()} max_workers={n} workers={len(e._processes)} "
          f"tasks running after 2s: {inside}")
    [f.result() for f in fs]
    e.shutdown()
    if inside != n:
        print("FAIL: fewer than max_workers long tasks run simultaneously")
        os._exit(1)
    print("PASS")
    os._exit(0)


if __name__ == "__main__":
    main()
