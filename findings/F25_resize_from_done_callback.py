"""F25: get_reusable_executor(max_workers=<other size>) called from a done-callback (it runs in
the executor manager thread) while another job is pending: _resize waits in
_wait_job_completion for pending_work_items to drain, but only the manager thread - the caller
itself - can drain it.  The call never returns, the executor lock stays held: every later
get_reusable_executor()/submit() of any thread blocks as well.
usage: PYTHONPATH=<loky tree> python F25_...py   (exit 0 = the call returned)"""
import os
import threading
import time

from loky import get_reusable_executor

state = {}


def cb(fut):
    state["cb_started"] = time.time()
    get_reusable_executor(max_workers=3, timeout=30)
    state["cb_returned"] = time.time()


def main():
    t = threading.Timer(40, lambda: os._exit(3))
    t.daemon = True
    t.start()
    e = get_reusable_executor(max_workers=2, timeout=30)
    e.submit(time.sleep, 0.01).result()
    b = e.submit(time.sleep, 2.0)          # another job, pending while the callback runs
    a = e.submit(time.sleep, 0.2)
    a.add_done_callback(cb)
    deadline = time.time() + 15
    while "cb_returned" not in state and time.time() < deadline:
        time.sleep(0.1)
    ok = "cb_returned" in state
    print("callback started:", "cb_started" in state, "- get_reusable_executor returned:", ok,
          "- job b done:", b.done())
    if not ok:
        for p in list(e._processes.values()):
            os.kill(p.pid, 9)
        os._exit(1)
    e.shutdown()
    print("PASS")
    os._exit(0)


if __name__ == "__main__":
    main()
