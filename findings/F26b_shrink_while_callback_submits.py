"""F26 (second face): a thread shrinks the reusable executor (get_reusable_executor with a smaller
max_workers) while a running job has a done-callback that calls executor.submit(): _resize holds
the executor lock and waits for workers to leave, which the manager thread must acknowledge -
but the manager thread is blocked in the callback's submit() on that very lock.
usage: PYTHONPATH=<loky tree> python F26b_...py   (exit 0 = the call returned)"""
import os
import threading
import time
import warnings

from loky import get_reusable_executor

state = {}


def main():
    warnings.simplefilter("ignore")
    t = threading.Timer(40, lambda: os._exit(3))
    t.daemon = True
    t.start()
    e = get_reusable_executor(max_workers=2, timeout=30)
    e.submit(time.sleep, 0.01).result()

    def cb(fut):
        try:
            e.submit(time.sleep, 0.01)
            state["resubmitted"] = True
        except Exception as ex:      # noqa
            state["resubmitted"] = type(ex).__name__
    a = e.submit(time.sleep, 1.0)
    a.add_done_callback(cb)

    def shrink():
        get_reusable_executor(max_workers=1, timeout=30)
        state["returned"] = True
    th = threading.Thread(target=shrink, daemon=True)
    th.start()
    th.join(15)
    print("shrinking call returned:", state.get("returned", False), "- callback:", state.get("resubmitted"))
    if not state.get("returned"):
        for p in list(e._processes.values()):
            os.kill(p.pid, 9)
        os._exit(1)
    print("PASS")
    os._exit(0)


if __name__ == "__main__":
    main()
