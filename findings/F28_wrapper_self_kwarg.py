"""F28: CallableObjectWrapper.__call__(self, *args, **kwargs) swallows a keyword argument named
'self' meant for the wrapped callable.  usage: PYTHONPATH=<loky tree> python F28_...py"""
import sys
from loky import wrap_non_picklable_objects


def takes_self(self, x=1):
    return ("got", self, x)


w = wrap_non_picklable_objects(takes_self)
try:
    ok = w(self=3) == takes_self(self=3)
except TypeError as e:
    print("FAIL:", e)
    ok = False
print("PASS" if ok else "FAIL")
sys.exit(0 if ok else 1)
