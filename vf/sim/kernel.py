"""Engine S kernel: a cooperative baton scheduler over real OS threads (exactly one runs at a
time) and the simulated kernel objects the loky sources are run against: processes with fd
tables, pipes with byte capacity, named POSIX semaphores (SemLock), a virtual clock.

Every shim operation calls ``Sched.point`` first: that is a *decision point*.  An execution is
fully determined by the list of non-default choices taken at decision points.
"""
import _thread
import sys
import threading as _rt
import traceback

PARENT_PID = 10_000_000
SHORT = 1.0          # timed waits up to this long may fire although other threads are enabled
TIMEOUT = object()


class SimKilled(BaseException):
    """Raised inside every thread of a killed simulated process (unwinds without effects)."""


class SimAbort(BaseException):
    """Raised inside every remaining thread when an execution is over."""


class InternalError(Exception):
    """The machinery itself is wrong (replay divergence, unshimmed host access, ...)."""


S = None  # the scheduler of the execution in progress


def cur_sched():
    s = S
    if s is None or not s.active:
        raise SimAbort()
    return s


# ------------------------------------------------------------------------------------------
class SThread:
    __slots__ = ("sched", "fn", "name", "proc", "daemon", "id", "baton", "state", "pred",
                 "deadline", "short", "is_sleep", "fired", "killed", "unwinder", "exc", "since",
                 "label", "real", "pyobj", "is_main", "exit_code", "waitobj", "quiet_seen",
                 "quiet_repeats", "period", "quiet_period")

    def __init__(self, sched, fn, name, proc, daemon=False, is_main=False):
        self.sched = sched
        self.fn = fn
        self.proc = proc
        self.daemon = daemon
        self.is_main = is_main
        self.id = len(sched.threads)
        n = sum(1 for t in sched.threads if t.proc is proc and t.name.split("~")[0] == name)
        self.name = name if n == 0 else f"{name}~{n}"
        sched.threads.append(self)
        proc.threads.append(self)
        self.baton = _thread.allocate_lock()
        self.baton.acquire()
        self.state = "ready"
        self.pred = None
        self.deadline = None
        self.short = False
        self.is_sleep = False
        self.fired = False
        self.killed = False
        self.unwinder = None
        self.exc = None
        self.exit_code = None
        self.since = sched.nsteps
        self.label = "start"
        self.waitobj = None
        self.pyobj = None
        self.quiet_seen = set()
        self.period = None
        self.quiet_period = None
        self.quiet_repeats = 0
        self.real = _rt.Thread(target=self._boot, daemon=True)
        self.real.start()

    @property
    def full(self):
        return f"{self.proc.label}:{self.name}"

    def _boot(self):
        self.baton.acquire()
        s = self.sched
        try:
            if s.aborting:
                raise SimAbort()
            if self.killed:
                raise SimKilled()
            self.state = "running"
            self.fn()
            self.exit_code = 0
        except (SimKilled, SimAbort):
            pass
        except SystemExit as e:
            c = e.code
            self.exit_code = 0 if c is None else (c if isinstance(c, int) else 1)
        except BaseException as e:  # uncaught exception = death of this thread
            self.exit_code = 1
            tb = traceback.extract_tb(e.__traceback__)
            self.exc = (type(e).__name__, str(e)[:300],
                        [f"{f.name}" for f in tb][-4:], traceback.format_exc()[-3000:])
            s.thread_errors.append((self.full, type(e).__name__, str(e)[:300],
                                    [f.name for f in tb][-4:]))
        finally:
            # dropping the last references may run finalizers that perform shim operations:
            # that must happen while this thread still counts as running
            try:
                self.fn = None
                self.pyobj = None
            except BaseException:
                pass
            self.state = "done"
            try:
                s.thread_done(self)
            except (SimKilled, SimAbort):
                s._abort_next()


class SProc:
    def __init__(self, sched, label, parent=None):
        self.sched = sched
        self.pid = sched.next_pid
        sched.next_pid += 1
        self.label = label
        self.parent = parent
        self.alive = True
        self.exitcode = None
        self.reaped = False
        self.clean = False        # main function returned (not killed)
        self.fds = {}
        self.threads = []
        self.env = None
        self.info = {}
        sched.procs[self.pid] = self

    def alloc_fd(self, end):
        fd = 3
        while fd in self.fds:
            fd += 1
        self.fds[fd] = end
        end[0].ref(end[1], +1)
        return fd

    def close_fd(self, fd):
        end = self.fds.pop(fd, None)
        if end is None:
            raise OSError(9, "Bad file descriptor")
        end[0].ref(end[1], -1)

    def close_all(self):
        for fd in list(self.fds):
            self.close_fd(fd)


class KPipe:
    """A kernel pipe: byte capacity, message framing as multiprocessing.Connection does it
    (4-byte header + payload), reference-counted ends."""

    def __init__(self, sched, cap):
        self.id = len(sched.pipes)
        sched.pipes.append(self)
        self.cap = cap
        self.msgs = []     # each: [payload bytes, total bytes incl. header, sent, read]
        self.readers = 0
        self.writers = 0
        # a write of at most PIPE_BUF bytes is atomic (all of it or it blocks); the real ratio
        # capacity / PIPE_BUF (65536 / 4096) is kept for the small capacities some programs use
        self.pipe_buf = max(4, cap // 16)
        # bytes of one message written into the middle of another one (two writers, one of
        # them inside a multi-chunk write): the byte stream no longer parses into messages
        self.corrupt = False
        self.mid_read = 0      # readers blocked between the chunks of a message

    def ref(self, which, d):
        if which == "r":
            self.readers += d
        else:
            self.writers += d

    def used(self):
        return sum(m[2] - m[3] for m in self.msgs)

    def free(self):
        return self.cap - self.used()

    def readable(self):
        return self.used() > 0 or self.writers == 0

    def sig(self):
        return (len(self.msgs), self.used() > 0 and self.msgs[-1][2] < self.msgs[-1][1],
                self.readers, self.writers, self.corrupt)


class KSem:
    __slots__ = ("name", "value", "id", "linked")

    def __init__(self, sched, name, value):
        self.name = name
        self.value = value
        self.id = len(sched.sems)
        self.linked = True
        sched.sems.append(self)


# ------------------------------------------------------------------------------------------
_MON_TOOL = 4
_mon_on = False
_mon_seen = set()


def _instrument(code):
    """LINE events (sys.monitoring, CPython >= 3.12) for one code object and all nested ones.
    Local events of a private tool id are set once per code object and never changed, so the
    sequence of events of an execution does not depend on the history of the process (the
    legacy sys.settrace layer re-instruments frames and repeats lines depending on it)."""
    if id(code) in _mon_seen:
        return
    _mon_seen.add(id(code))
    ev = sys.monitoring.events
    sys.monitoring.set_local_events(_MON_TOOL, code, ev.LINE | ev.PY_START | ev.PY_RESUME)
    for c in code.co_consts:
        if hasattr(c, "co_code"):
            _instrument(c)


def _on_line(code, lineno):
    s = S
    if s is None or s.lines is None or not s.active or s.aborting:
        return
    t = s.cur
    if t is None or t.real.ident != _thread.get_ident() or t.proc.pid != PARENT_PID \
            or t.killed or t.state != "running":
        return
    if s.lines != "*" and code.co_name not in s.lines:
        return
    # whether a line is reported again when control comes back to it from a call depends on
    # how the interpreter has specialised the calling instruction so far (process history):
    # consecutive reports of one line within one frame count once
    fid = id(sys._getframe(1))
    if s.line_last.get(fid) == lineno:
        return
    s.line_last[fid] = lineno
    s.point(label=f"L:{code.co_name}:{lineno}")


def _on_start(code, offset):
    s = S
    if s is not None and s.lines is not None:
        s.line_last.pop(id(sys._getframe(1)), None)


def enable_line_mode(code_objects):
    global _mon_on
    if not _mon_on:
        sys.monitoring.use_tool_id(_MON_TOOL, "vf-line-mode")
        sys.monitoring.register_callback(_MON_TOOL, sys.monitoring.events.LINE, _on_line)
        sys.monitoring.register_callback(_MON_TOOL, sys.monitoring.events.PY_START, _on_start)
        sys.monitoring.register_callback(_MON_TOOL, sys.monitoring.events.PY_RESUME, _on_start)
        _mon_on = True
    for c in code_objects:
        _instrument(c)




class Sched:
    def __init__(self, prefix=(), kinds=("P", "T", "K"), kill_code=-9, horizon=50_000,
                 pipe_cap=65536, track_states=True, kill_filter=None, starve=None,
                 p_scope=None, t_scope=None, t_when=None, p_when=None, t_cur=None,
                 zero_when=None, lines=None, p_cur=None):
        self.threads = []
        # line-granular mode: every source line executed by a parent-process thread inside the
        # named loky functions ("*": all loky code) is a decision point where another
        # parent-process thread may be run instead (threads of one process only interleave
        # with each other at this granularity; across processes only kernel operations matter)
        self.lines = (None if not lines else ("*" if lines == "*" else frozenset(lines)))
        self.line_last = {}
        if self.lines is not None:
            from . import world as _w
            enable_line_mode([c for p, c in _w._code_cache.items() if "/loky/" in p])
        self.procs = {}
        self.pipes = []
        self.sems = []
        self.sem_names = {}
        self.next_pid = PARENT_PID
        self.cur = None
        self.now = 0.0
        self.prefix = {i: (a, lab) for (i, a, lab) in prefix}
        self.kinds = set(kinds)
        self.kill_code = kill_code
        self.kill_filter = kill_filter
        self.starve = starve      # scheduling policy: threads whose name starts with this run last
        self.p_scope = p_scope    # if set, only threads with this name prefix are P alternatives
        self.t_scope = t_scope    # if set, only timed waits of threads with this prefix may fire early
        self.t_when = t_when      # if set, T alternatives only while a parent thread runs this function
        self.p_when = p_when      # if set, P alternatives only while a parent thread runs this function
        self.t_cur = t_cur        # if set, T alternatives only at decision points of this thread
        self.p_cur = p_cur        # if set, P alternatives only at decision points of this thread
        # policy "timeouts are ~0 relative to this call": while a parent thread runs the named
        # function every short timed wait counts as expired (all idle timers fire inside it)
        self.zero_when = zero_when
        self.horizon = horizon
        self.pipe_cap = pipe_cap
        self.nchoice = 0
        self.alts_log = []        # per decision: tuple of labels
        self.devs = []            # deviations taken: (index, alt, label, info)
        self.trace = []           # notable events
        self.thread_errors = []
        self.aborting = False
        self.active = True
        self.verdict = None
        self.blocked_at_end = []
        self.nsteps = 0
        self.monitors = []
        self.track_states = track_states
        self.states = set()
        self.transitions = set()
        self.extra_state = None
        self.done_evt = _thread.allocate_lock()
        self.done_evt.acquire()
        self._ret = _thread.allocate_lock()
        self._ret.acquire()
        self.internal_error = None
        self.exit_started = False
        self.popens = []
        self.livelock_limit = 80
        self.annotate_kill = None

    # ---- threads / processes -------------------------------------------------------------
    def spawn(self, fn, name, proc, daemon=False, is_main=False):
        return SThread(self, fn, name, proc, daemon, is_main)

    def new_proc(self, label, parent=None):
        return SProc(self, label, parent)

    def enabled(self, t):
        if t.killed or t.state == "done":
            return False
        if t.state in ("ready", "running"):
            return True
        if t.state == "blocked":
            if t.pred is not None and t.pred():
                return True
            if t.deadline is not None and t.deadline <= self.now:
                return True
        return False

    def alternatives(self, me):
        zero = self.zero_when is not None and self._parent_in(self.zero_when)
        en = [t for t in self.threads if self.enabled(t)
              or (zero and t.state == "blocked" and t.short and not t.killed)]
        st = self.starve
        if zero and me is not None and me.state == "blocked" and not (me.pred is not None and me.pred()):
            # an expired (zero) timed wait still yields the processor: others go first
            en.sort(key=lambda t: (1 if t is me else 0, t.since, t.id))
        elif st is None:
            en.sort(key=lambda t: (0 if t is me else 1, t.since, t.id))
        elif st.startswith("eager:"):
            # priority policy: the named thread runs whenever it is enabled
            pre = st[6:]
            en.sort(key=lambda t: (0 if t.full.startswith(pre) else 1, 0 if t is me else 1,
                                   t.since, t.id))
        else:
            en.sort(key=lambda t: (0 if t is me else 1, 1 if t.full.startswith(st) else 0,
                                   t.since, t.id))
        if me is not None and me.label.startswith("L:"):
            # a source-line point: only threads of the same process are alternatives
            return [("P", t, "run:" + t.full) for t in en[:1]
                    + [t for t in en[1:] if t.proc is me.proc and t is not me]]
        if self.p_scope is not None and len(en) > 1:
            en = en[:1] + [t for t in en[1:] if t.full.startswith(self.p_scope)]
        if self.p_when is not None and len(en) > 1 and not self._parent_in(self.p_when):
            en = en[:1]
        if self.p_cur is not None and len(en) > 1 and me is not None and me.state != "done" \
                and en[0] is me and not me.full.startswith(self.p_cur):
            en = en[:1]
        alts = [("P", t, "run:" + t.full) for t in en]
        if en:
            if "T" in self.kinds and (self.t_cur is None or (me is not None
                                                             and me.full.startswith(self.t_cur))) \
                    and (self.t_when is None or self._parent_in(self.t_when)):
                for t in self.threads:
                    if self.t_scope is not None and not t.full.startswith(self.t_scope):
                        continue
                    if (t.state == "blocked" and not t.killed and t.short
                            and t.deadline is not None and t.deadline > self.now
                            and not (t is me and t.pred is not None and t.pred())):
                        alts.append(("T", t, "timeout:" + t.full))
            if "K" in self.kinds:
                for p in self.procs.values():
                    if p.alive and p.label.startswith("worker"):
                        if self.kill_filter is None or self.kill_filter(self, p):
                            alts.append(("K", p, "kill:" + p.label))
        return alts

    def _parent_in(self, funcname):
        fr = sys._current_frames()
        for t in self.threads:
            if t.proc.pid != PARENT_PID or t.state == "done":
                continue
            f = fr.get(t.real.ident)
            while f is not None:
                if f.f_code.co_name == funcname and "/loky/" in f.f_code.co_filename:
                    return True
                f = f.f_back
        return False

    def state_sig(self):
        th = tuple((t.state if not t.killed else "k", t.label) for t in self.threads)
        sm = tuple(k.value for k in self.sems)
        pp = tuple(p.sig() for p in self.pipes)
        pr = tuple((p.alive, p.reaped, len(p.fds)) for p in self.procs.values())
        ex = self.extra_state() if self.extra_state is not None else None
        return hash((th, sm, pp, pr, ex))

    def pick(self, me):
        while True:
            alts = self.alternatives(me)
            if alts:
                i = self.nchoice
                self.nchoice += 1
                labels = tuple(a[2] for a in alts)
                self.alts_log.append(labels)
                c = 0
                if i in self.prefix:
                    c, lab = self.prefix[i]
                    if c >= len(alts) or (lab is not None and labels[c] != lab):
                        self.internal_error = (f"replay divergence at decision {i}: wanted "
                                               f"{c}:{lab}, have {labels}")
                        self.verdict = "internal"
                        return None
                kind, obj, label = alts[c]
                if self.track_states:
                    h = self.state_sig()
                    self.states.add(h)
                    self.transitions.add(hash((h, label)))
                if c != 0:
                    self.devs.append((i, c, label))
                if kind == "P":
                    return obj
                if kind == "T":
                    self.now = max(self.now, obj.deadline)
                    obj.fired = True
                    # 4th field: did it fire while a parent thread was spawning workers (inside
                    # the region the processes-management lock protects)?  Known without looking
                    # at any stack when the exploration is scoped to that region (t_when);
                    # sys._current_frames() is NOT consulted here: materialising the frames of
                    # all threads was seen to keep a dropped executor alive (C20 false alarm)
                    self.trace.append(("T", obj.full, obj.label,
                                       self.t_when == "_adjust_process_count", self.now,
                                       obj.proc.pid))
                    return obj
                if kind == "K":
                    self.trace.append(("K", obj.label, stack_sig_proc(self, obj),
                                       self.annotate_kill(obj) if self.annotate_kill else None))
                    self.kill_proc(obj, me, self.kill_code)
                    if me is not None and me.killed:
                        return "SELF"
                    continue
            timed = [t for t in self.threads if t.state == "blocked" and not t.killed
                     and t.deadline is not None]
            if not timed:
                return None
            t = min(timed, key=lambda t: (t.deadline, t.id))
            # livelock rule: a timed waiter resumed at quiescence (nothing else can run) in a
            # world state it has already been resumed in: only the clock drives the system
            sig = self.state_sig()
            if sig in t.quiet_seen:
                t.quiet_repeats += 1
                others = [u for u in timed if u is not t and u.quiet_repeats == 0
                          and u.deadline > t.deadline]
                same_period = t.quiet_period == t.period
                t.quiet_period = t.period
                if t.quiet_repeats % 4 == 3 and others and same_period:
                    u = min(others, key=lambda u: (u.deadline, u.id))
                    self.now = max(self.now, u.deadline)
                    continue
                if t.quiet_repeats >= self.livelock_limit:
                    self.verdict = "livelock"
                    return None
            else:
                t.quiet_seen.add(sig)
                t.quiet_repeats = 0
            self.now = max(self.now, t.deadline)

    def kill_proc(self, proc, me, code=-9):
        if not proc.alive:
            return
        proc.alive = False
        proc.exitcode = code
        for t in list(proc.threads):
            if t.state != "done" and t is not me:
                t.killed = True
                t.unwinder = self._ret
                self.cur = t
                t.baton.release()
                self._ret.acquire()
                self.cur = me
        if me is not None and me.proc is proc:
            me.killed = True
        proc.close_all()

    def switch(self, me):
        nxt = self.pick(me)
        if nxt == "SELF":
            raise SimKilled()
        if nxt is None:
            self.finish(me, self.verdict or "quiescent")
            return
        nxt.since = self.nsteps
        if nxt is me:
            return
        self.cur = nxt
        nxt.baton.release()
        if me is not None and me.state != "done":
            me.baton.acquire()
            self.cur = me

    def finish(self, me, verdict):
        self.verdict = verdict
        alive = [t for t in self.threads if t.state != "done" and not t.killed]
        self.blocked_at_end = [(t.full, t.label, t.daemon, stack_sig(t, running=(t is me)))
                               for t in alive]
        self.aborting = True
        if me is not None and me.state != "done":
            raise SimAbort()
        self._abort_next()

    def point(self, pred=None, timeout=None, label="", sleep=False):
        me = self.cur
        if not self.active or self.aborting:
            raise SimAbort()
        if me.killed:
            raise SimKilled()
        self.nsteps += 1
        if self.nsteps > self.horizon:
            self.finish(me, "horizon")
        me.label = label
        if pred is None:
            me.state = "ready"
            me.deadline = None
        else:
            me.state = "blocked"
            me.pred = pred
            me.deadline = None if timeout is None else self.now + max(timeout, 0.0)
            me.short = timeout is not None and timeout <= SHORT
            me.period = timeout
            me.is_sleep = sleep
        me.fired = False
        for m in self.monitors:
            m(self)
        self.switch(me)
        if self.aborting:
            raise SimAbort()
        if me.killed:
            raise SimKilled()
        res = None
        if me.state == "blocked":
            if me.fired:
                res = TIMEOUT
            elif pred():
                res = None
            else:
                res = TIMEOUT
        me.state = "running"
        me.pred = None
        me.deadline = None
        me.fired = False
        return res

    def proc_exit(self, proc, code, me):
        """The main thread of a simulated process ended: the process exits."""
        if not proc.alive:
            return
        proc.clean = True
        self.kill_proc(proc, me, code)

    def thread_done(self, me):
        if me.unwinder is not None:
            u = me.unwinder
            me.unwinder = None
            u.release()
            return
        if self.aborting:
            self._abort_next()
            return
        if me.is_main:
            if me.proc.pid == PARENT_PID:
                self.finish(None, "completed" if me.exc is None else "main-died")
                return
            self.proc_exit(me.proc, me.exit_code if me.exit_code is not None else 1, me)
        if all(t.state == "done" for t in self.threads):
            self.finish(None, "completed")
            return
        self.switch(None)

    def _abort_next(self):
        for t in self.threads:
            if t.state != "done":
                self.cur = t
                t.baton.release()
                return
        self.done_evt.release()

    def run(self, main_fn):
        p = self.new_proc("parent")
        t = self.spawn(main_fn, "main", p, is_main=True)
        self.cur = t
        t.baton.release()
        self.done_evt.acquire()
        self.active = False
        for t in self.threads:
            t.real.join(20)
            if t.real.is_alive():
                raise InternalError(f"thread {t.full} did not unwind at {t.label}")
        return self.verdict


LOKY_FILES = ("/loky/", "multiprocessing/queues.py", "concurrent/futures/_base.py")


def stack_sig(t, running=False, depth=3):
    fr = sys._current_frames().get(t.real.ident)
    out = []
    while fr is not None:
        fn = fr.f_code.co_filename
        if any(k in fn for k in LOKY_FILES) and "/vf/" not in fn:
            out.append(fr.f_code.co_name)
        fr = fr.f_back
    return tuple(out[:depth])


def stack_sig_proc(s, proc):
    return tuple((t.name, t.label, stack_sig(t)) for t in proc.threads if t.state != "done")


def chk():
    s = S
    if s is None or not s.active or s.aborting:
        raise SimAbort()
    if s.cur.killed:
        raise SimKilled()
    return s
