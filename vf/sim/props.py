"""Per-property oracles over a Record (engine S).  Each returns (violations, outcome class)."""
from . import oracles as O

BPP = ("BrokenProcessPool", "TerminatedWorkerError")


def expected(kind, key, args):
    if kind == "ok":
        v = args[0] if args else 0
        return ("val", (key, v * v + 1))
    if kind == "gate":
        return ("val", ("gate", key))
    if kind == "big":
        return ("val", ("big", key, args[0]))
    if kind in ("slow_arg", "big_arg"):
        return ("val", (key, "ident"))
    if kind == "leak":
        return ("val", (key, "leak"))
    if kind == "spawn_child":
        return ("val", (key, "spawned"))
    if kind == "raise":
        return ("exc", "ValueError", (key, "boom"), "_RemoteTraceback")
    if kind in ("raise_badrepr_arg", "raise_badrepr_kwarg", "raise_badrepr_fn"):
        return ("exc", "ValueError", (key, "boom"), "_RemoteTraceback")
    if kind == "raise_badstr":
        return ("exc", "SloppyError", (key,), "_RemoteTraceback")
    if kind == "raise_unprintable":
        return ("exc", "UnprintableError", (key,), "_RemoteTraceback")
    if kind == "ok_badrepr_arg":
        return ("val", (key, "ident"))
    if kind == "sysexit":
        return ("exc", "SystemExit", (3,), "_RemoteTraceback")
    if kind == "kbint":
        return ("exc", "KeyboardInterrupt", (key,), "_RemoteTraceback")
    if kind == "unpicklable_result":
        return ("exc", "ValueError", ("result cannot be pickled",), "_RemoteTraceback")
    if kind in ("bad_arg", "exit_arg", "slow_bad_arg", "index_arg", "key_arg") or (
            kind.endswith("_arg") and kind[:-4] in EXC_ARG_KINDS):
        return ("exc", "PicklingError", None, "_RemoteTraceback")
    if kind == "huge_arg":
        return ("exc", "RuntimeError", None, "_RemoteTraceback")
    return None     # outcome not pinned (die, bad_unpickle_*)


from .tasks import EXC_ARGS as _EA
EXC_ARG_KINDS = frozenset(_EA)


def matches(f, exp):
    if exp is None:
        return True
    if exp[0] == "val":
        return f[0] == "val" and f[1] == exp[1]
    if f[0] != "exc" or f[1] != exp[1]:
        return False
    if exp[2] is not None and tuple(f[2]) != tuple(exp[2]):
        return False
    return f[3] == exp[3]


def is_bpp(f):
    return f[0] == "exc" and (f[1] in BPP or any(n in BPP for n in f[4]))


def is_shutdown_err(f):
    return f[0] == "exc" and f[1] == "ShutdownExecutorError"


def _cls(rec):
    return (rec.verdict, tuple(sorted((k, f[0], f[1] if f[0] == "exc" else None)
                                      for k, f in rec.fut.items())),
            tuple(e["broken"][0] if e["broken"] else None for e in rec.execs))


def body_counts(rec):
    c = {}
    for ev in rec.log:
        if ev[0] == "body":
            c[ev[2]] = c.get(ev[2], 0) + 1
    return c


# ---- C02 ----------------------------------------------------------------------------------
def c02(rec):
    v, _ = O.termination(rec)
    deaths = O.worker_deaths(rec)
    if not deaths:
        return [], _cls(rec)       # no abrupt death in this execution: nothing to decide
    c = O.cause(rec)
    out = [dict(x, signature="C02:" + x["signature"]) for x in v]
    if v:
        return out, _cls(rec)
    for key, f in rec.fut.items():
        kind = rec.values[key][0]
        exp = expected(kind, key, rec.values[key][1:])
        if f[0] == "cancelled":
            continue
        if is_bpp(f):
            continue
        if exp is not None and matches(f, exp):
            continue
        if exp is None and f[0] == "exc":
            continue
        out.append(dict(signature=f"C02:wrong-outcome:{kind}:{f[0]}:{f[1] if f[0]=='exc' else ''}"
                                  f"|cause={c}",
                        msg=f"after a worker death future {key} ({kind}) holds {f[:3]}, neither "
                            f"its own outcome nor a BrokenProcessPool error"))
    ex = rec.execs[-1] if rec.execs else None
    if ex is not None:
        if not any(e["broken"] for e in rec.execs) and any(is_bpp(f) for f in rec.fut.values()):
            out.append(dict(signature=f"C02:bpp-without-flag|cause={c}",
                            msg="a future failed with a broken-pool error but the executor "
                                "is not flagged broken"))
    for ex in rec.execs:
        if ex["broken"] is not None and ex["broken"][0] == "TerminatedWorkerError":
            codes = [p["exitcode"] for p in deaths]
            if not any(f"({cd})" in ex["broken"][1] for cd in codes):
                out.append(dict(signature=f"C02:exit-codes-missing|cause={c}",
                                msg=f"TerminatedWorkerError does not name the exit codes "
                                    f"{codes}: {ex['broken'][1][:300]}"))
    # a submit issued once the pool is flagged broken raises the broken-pool error
    for o in rec.ops:
        if o["op"][0] == "submit_expect" and o.get("broken_at_call"):
            val = o.get("value")
            if val is None or val[0] != "exc" or not (val[1] in BPP or any(n in BPP for n in val[4])):
                out.append(dict(signature=f"C02:submit-after-break:{val[:2] if val else None}"
                                          f"|cause={c}",
                                msg=f"submit() on a pool already flagged broken did not raise "
                                    f"the broken-pool error: {val}"))
    # all workers dead and reaped once the interpreter exit completed
    if rec.verdict == "completed" and rec.exit_done:
        left = [p["label"] for p in rec.procs if p["alive"]]
        unreaped = [p["label"] for p in rec.procs if not p["alive"] and not p["reaped"]]
        if left:
            out.append(dict(signature=f"C02:workers-left-alive|cause={c}",
                            msg=f"workers {left} still alive after the interpreter exit"))
        if unreaped:
            out.append(dict(signature=f"C02:workers-not-reaped|cause={c}",
                            msg=f"dead workers {unreaped} were never waited for (zombies)"))
    return out, _cls(rec)


# ---- C03 ----------------------------------------------------------------------------------
def c03(rec):
    v, _ = O.termination(rec)
    out = [dict(x, signature="C03:" + x["signature"]) for x in v]
    if v:
        return out, _cls(rec)
    c = O.cause(rec)
    bc = body_counts(rec)
    for key, f in rec.fut.items():
        kind = rec.values[key][0]
        exp = expected(kind, key, rec.values[key][1:])
        if f[0] == "cancelled":
            if bc.get(key, 0):
                out.append(dict(signature=f"C03:cancelled-but-ran|cause={c}",
                                msg=f"task {key} was cancelled (future cancelled) but its body "
                                    f"ran {bc[key]} time(s)"))
            continue
        if not matches(f, exp):
            out.append(dict(signature=f"C03:wrong-result:{kind}|cause={c}",
                            msg=f"future {key} holds {f[:3]} instead of {exp}"))
    for key in rec.cancelled_true:
        if bc.get(key, 0):
            out.append(dict(signature=f"C03:cancel-true-but-ran|cause={c}",
                            msg=f"cancel() returned True for {key} but its body ran"))
    for key, n in bc.items():
        if n > 1:
            out.append(dict(signature=f"C03:ran-twice|cause={c}",
                            msg=f"task body {key} executed {n} times"))
    for o in rec.ops:
        if o["op"][0] in ("map", "map_partial") and "value" in o:
            if o["value"] != ("val", o["expect"]):
                out.append(dict(signature=f"C03:map-differs|cause={c}",
                                msg=f"map {o['op'][2:]} gave {str(o['value'])[:200]} expected "
                                    f"{str(o['expect'])[:200]}"))
    return out, _cls(rec)


# ---- C04 ----------------------------------------------------------------------------------
def c04(rec):
    v, _ = O.termination(rec)
    out = [dict(x, signature="C04:" + x["signature"]) for x in v]
    if v:
        return out, _cls(rec)
    c = O.cause(rec)
    if O.had_kill(rec):
        return out, _cls(rec)      # executions with a worker death are C02's business
    for key, f in rec.fut.items():
        kind = rec.values[key][0]
        exp = expected(kind, key, rec.values[key][1:])
        if f[0] == "cancelled":
            continue
        if not matches(f, exp):
            out.append(dict(signature=f"C04:wrong-outcome:{kind}:{f[0]}:{f[1] if f[0]=='exc' else ''}"
                                      f"|cause={c}",
                            msg=f"future {key} ({kind}) holds {f[:4]} instead of {exp}"))
    for e in rec.execs:
        if e["broken"] is not None:
            out.append(dict(signature=f"C04:pool-broken:{e['broken'][0]}|cause={c}",
                            msg=f"a task-level failure broke the pool: {e['broken']}"))
        if e["pending"] or e["running"]:
            out.append(dict(signature=f"C04:bookkeeping-left|cause={c}",
                            msg=f"at the end pending={e['pending']} running={e['running']}"))
    for o in rec.ops:
        if o["op"][0] == "probe" and o.get("value") and o["value"]["slot"] != o["value"]["queue_size"]:
            out.append(dict(signature=f"C04:slot-leak|cause={c}",
                            msg=f"call-queue slot semaphore is {o['value']['slot']} instead of "
                                f"{o['value']['queue_size']} once every future had resolved"))
    for o in rec.ops:
        if o["op"][0] == "callback" and o["op"][2] in ("raise", "add_callback", "ok"):
            key = o["op"][1]
            nrun = rec.notes.count(("callback", key))
            nreg = sum(1 for q in rec.ops if q["op"][0] == "callback" and q["op"][1] == key)
            done = rec.fut.get(key, ("undone",))[0] != "undone"
            if done and o["returned"] and nrun != nreg:
                out.append(dict(signature=f"C04:callback-run-{nrun}-times-of-{nreg}|cause={c}",
                                msg=f"{nreg} done-callback(s) registered on {key}, invoked {nrun} times"))
        if o["op"][0] == "late_callback" and o["returned"] and o.get("value") is False:
            out.append(dict(signature=f"C04:late-callback-not-run|cause={c}",
                            msg=f"add_done_callback on the finished future {o['op'][1]} did not "
                                f"run the callback"))
    return out, _cls(rec)


# ---- C05 ----------------------------------------------------------------------------------
def c05(rec):
    v, _ = O.termination(rec)
    out = [dict(x, signature="C05:" + x["signature"]) for x in v]
    if v or O.had_kill(rec):
        return out, _cls(rec)
    c = O.cause(rec)
    for o in rec.ops:
        if o["op"][0] == "shutdown" and o["op"][1] and not o["op"][2] and o["returned"] \
                and o["exc"] is None and len(rec.prog["threads"]) == 1 \
                and (o.get("undone_at_return") or o.get("managers_at_return")):
            out.append(dict(signature=f"C05:waited-shutdown-returned-early|cause={c}",
                            msg=f"shutdown(wait=True) returned while futures "
                                f"{o.get('undone_at_return')} were unresolved and "
                                f"{o.get('managers_at_return')} manager thread(s) still ran"))
    bc = body_counts(rec)
    for key, f in rec.fut.items():
        kind = rec.values[key][0]
        exp = expected(kind, key, rec.values[key][1:])
        if f[0] == "cancelled":
            continue
        if not matches(f, exp):
            out.append(dict(signature=f"C05:not-drained:{kind}:{f[0]}:{f[1] if f[0]=='exc' else ''}"
                                      f"|cause={c}",
                            msg=f"task {key} submitted before the shutdown ended as {f[:3]} "
                                f"instead of {exp}"))
        elif exp is not None and exp[0] == "val" and bc.get(key, 0) != 1:
            out.append(dict(signature=f"C05:ran-{bc.get(key, 0)}-times|cause={c}",
                            msg=f"task {key} ran {bc.get(key, 0)} times"))
    if rec.exit_done:
        for e in rec.execs:
            if e["broken"] is not None:
                out.append(dict(signature=f"C05:flagged-broken:{e['broken'][0]}|cause={c}",
                                msg=f"graceful shutdown flagged the pool broken: {e['broken']}"))
        bad = [(p["label"], p["exitcode"], p["clean"]) for p in rec.procs
               if p["alive"] or p["exitcode"] != 0 or not p["clean"]]
        if bad:
            out.append(dict(signature=f"C05:unclean-worker-exit|cause={c}",
                            msg=f"workers did not leave through the clean handshake: {bad}"))
        unreaped = [p["label"] for p in rec.procs if not p["reaped"]]
        if unreaped:
            out.append(dict(signature=f"C05:workers-not-reaped|cause={c}",
                            msg=f"workers never waited for: {unreaped}"))
        alive_thr = [t for t in rec.parent_threads if t[1] != "done"]
        if alive_thr:
            out.append(dict(signature=f"C05:threads-left|cause={c}",
                            msg=f"management threads still alive after exit: {alive_thr}"))
    for o in rec.ops:
        if o["op"][0] == "submit_expect" and o.get("shutdown_at_call"):
            val = o.get("value")
            if val is None or val[0] != "exc" or val[1] != "ShutdownExecutorError":
                out.append(dict(signature=f"C05:submit-after-shutdown:{val[:2] if val else None}"
                                          f"|cause={c}",
                                msg=f"submit() after shutdown gave {val}"))
    return out, _cls(rec)


# ---- C06 ----------------------------------------------------------------------------------
def c06(rec):
    v, _ = O.termination(rec)
    out = [dict(x, signature="C06:" + x["signature"]) for x in v]
    if v:
        return out, _cls(rec)
    c = O.cause(rec)
    for key, f in rec.fut.items():
        kind = rec.values[key][0]
        exp = expected(kind, key, rec.values[key][1:])
        if f[0] == "cancelled" or is_shutdown_err(f) or matches(f, exp) and exp is not None:
            continue
        if O.had_kill(rec) and is_bpp(f):
            continue
        out.append(dict(signature=f"C06:wrong-outcome:{kind}:{f[0]}:{f[1] if f[0]=='exc' else ''}"
                                  f"|cause={c}",
                        msg=f"after shutdown(kill_workers=True) future {key} holds {f[:3]}"))
    old = rec.execs[0] if rec.execs else None
    nlast = len([h for h in rec.execs])
    left = [p["label"] for p in rec.procs if p["alive"]]
    unreaped = [p["label"] for p in rec.procs if not p["alive"] and not p["reaped"]]
    if rec.exit_done and left:
        out.append(dict(signature=f"C06:workers-left-alive|cause={c}",
                        msg=f"workers {left} survived the forced shutdown"))
    if rec.exit_done and unreaped:
        out.append(dict(signature=f"C06:workers-not-reaped|cause={c}",
                        msg=f"killed workers never reaped: {unreaped}"))
    for o in rec.ops:
        if o["op"][0] == "expect_resolved" and o["returned"] and (o.get("value") or o.get("alive_workers")):
            out.append(dict(signature=f"C06:forced-shutdown-not-carried-out|cause={c}",
                            msg=f"shutdown(wait=False, kill_workers=True) returned and the system "
                                f"came to rest, yet futures {o.get('value')} are unresolved and "
                                f"workers {o.get('alive_workers')} alive: the forced shutdown waits "
                                f"for something else to happen"))
    for o in rec.ops:
        if o["op"][0] == "shutdown" and o["returned"] and o["exc"] is None and o["op"][1] and o["op"][2] \
                and o.get("alive_workers_at_return"):
            out.append(dict(signature=f"C06:worker-alive-when-forced-shutdown-returned|cause={c}",
                            msg=f"shutdown(wait=True, kill_workers=True) returned while workers "
                                f"{o['alive_workers_at_return']} were still running (a worker on "
                                f"its way out is a worker too)"))
    desc = [d["label"] for d in getattr(rec, "descendants", []) if d["alive"]]
    if rec.exit_done and desc:
        out.append(dict(signature=f"C06:descendants-left-alive|cause={c}",
                        msg=f"descendant processes {desc} of the workers survived the forced "
                            f"shutdown"))
    return out, _cls(rec)


# ---- C07 ----------------------------------------------------------------------------------
def c07(rec):
    v, _ = O.termination(rec)
    out = [dict(x, signature="C07:" + x["signature"]) for x in v]
    if v:
        return out, _cls(rec)
    c = O.cause(rec)
    bc = body_counts(rec)
    for e in rec.execs:
        if e["broken"] is not None:
            out.append(dict(signature=f"C07:flagged-broken:{e['broken'][0]}|cause={c}",
                            msg=f"an idle-timeout race flagged the pool broken: {e['broken']}"))
    for key, f in rec.fut.items():
        kind = rec.values[key][0]
        exp = expected(kind, key, rec.values[key][1:])
        if f[0] == "cancelled":
            continue
        if not matches(f, exp):
            out.append(dict(signature=f"C07:lost-or-wrong:{kind}:{f[0]}:{f[1] if f[0]=='exc' else ''}"
                                      f"|cause={c}",
                            msg=f"task {key} ended as {f[:3]} instead of {exp}"))
        elif exp[0] == "val" and bc.get(key, 0) != 1:
            out.append(dict(signature=f"C07:ran-{bc.get(key, 0)}-times|cause={c}",
                            msg=f"task {key} ran {bc.get(key, 0)} times"))
    bad = [(p["label"], p["exitcode"]) for p in rec.procs
           if not p["alive"] and (p["exitcode"] != 0 or not p["clean"])]
    if bad:
        out.append(dict(signature=f"C07:nonzero-exit|cause={c}",
                        msg=f"workers left with a non-zero status: {bad}"))
    return out, _cls(rec)


# ---- C08 (monitor hits are collected in rec.monitor_hits) ---------------------------------
def c08_monitor(s, w, rec):
    for h in w.execs:
        ex = h["ref"]()
        mw = ex._max_workers if ex is not None else h["max_seen"]
        if mw > h["max_seen"]:
            h["max_seen"] = mw
        M = h["max_seen"]
        n = h["processes"].raw_len()
        if n > M and len(rec.monitor_hits) < 3:
            rec.monitor_hits.append(("registered", n, M, s.cur.full, s.cur.label))
    inside = sum(p.info.get("inside", 0) for p in s.procs.values() if p.alive)
    if w.execs:
        M = max(h["max_seen"] for h in w.execs)
        if inside > M and len(rec.monitor_hits) < 3:
            rec.monitor_hits.append(("inside", inside, M, s.cur.full, s.cur.label))


C08_MONITORS = (c08_monitor,)


def c08(rec):
    v, _ = O.termination(rec)
    out = [dict(x, signature="C08:" + x["signature"]) for x in v]
    c = O.cause(rec)
    for hit in rec.monitor_hits:
        out.append(dict(signature=f"C08:bound-exceeded:{hit[0]}|cause={c}",
                        msg=f"{hit[0]}={hit[1]} exceeds max_workers={hit[2]} (seen at "
                            f"{hit[3]} {hit[4]})"))
    if v:
        return out, _cls(rec)
    for o in rec.ops:
        if o["op"][0] == "expect_inside" and o.get("value") != o["op"][1] \
                and not any(e["broken"] for e in rec.execs):
            qs = o.get("queue_size")
            small = f":queue={qs}:cpus={o.get('cpus')}" if qs is not None and qs < o["op"][1] else ""
            out.append(dict(signature=f"C08:not-delivered:{o.get('value')}of{o['op'][1]}{small}"
                                      f"|cause={c}",
                            msg=f"with {o['op'][1]} long tasks pending on a healthy pool only "
                                f"{o.get('value')} run simultaneously (call queue: {qs} slots)"))
    return out, _cls(rec) + (tuple(o.get("value") for o in rec.ops
                                   if o["op"][0] == "expect_inside"),)


# ---- C10 ----------------------------------------------------------------------------------
def c10(rec):
    v, _ = O.termination(rec)
    out = [dict(x, signature="C10:" + x["signature"]) for x in v]
    if v:
        return out, _cls(rec)
    c = O.cause(rec)
    kill = O.had_kill(rec)
    # idle timers firing during the call (T deviations, or the zero-timeout policy) legitimately
    # change the worker population: the size / kept-workers clauses are conditional on that
    timed = any(ev[0] == "T" and "worker" in ev[1] for ev in rec.trace) \
        or bool(rec.policy.get("zero_when"))
    for key, f in rec.fut.items():
        kind = rec.values[key][0]
        exp = expected(kind, key, rec.values[key][1:])
        if f[0] == "cancelled" or (kill and is_bpp(f)):
            continue
        if not matches(f, exp):
            out.append(dict(signature=f"C10:task-lost:{kind}:{f[0]}:{f[1] if f[0]=='exc' else ''}"
                                      f"|cause={c}",
                            msg=f"task {key} ended as {f[:3]} instead of {exp}"))
    for o in rec.ops:
        if o["op"][0] == "reuse" and o["returned"] and o["exc"] is None and "same" in o:
            want = o["op"][1].get("max_workers")
            # an explicit shutdown by the user that started before the call returned takes the
            # workers away legitimately (the statement describes a resize, not a resize racing
            # with the end of the executor's life)
            stopped = any(x["op"][0] in ("shutdown", "kill", "with_exit")
                          and x.get("seq_start", 0) < o.get("seq_end", 0) for x in rec.ops)
            if o["same"] and want is not None and not o["broken"] and not kill \
                    and o.get("started_before", True) and not stopped:
                if o.get("stale_sentinels") and not timed:
                    out.append(dict(signature=f"C10:stale-sentinel:{o['stale_sentinels']}|cause={c}",
                                    msg=f"resize to {want} returned leaving {o['stale_sentinels']} "
                                        f"stop sentinel(s) in the call queue: they will shut down "
                                        f"workers that were supposed to stay (or their replacements)"))
                if o["n_workers"] != want and not timed:
                    out.append(dict(signature=f"C10:wrong-size:{o['n_workers']}vs{want}|cause={c}",
                                    msg=f"resize to {want} returned with {o['n_workers']} "
                                        f"registered workers"))
                if o["max_workers"] != want:
                    out.append(dict(signature=f"C10:max-workers-not-set|cause={c}",
                                    msg=f"_max_workers is {o['max_workers']} after resize to {want}"))
                if not timed and not kill:
                    kept = len(set(o["pids_before"]) & set(o["pids_after"]))
                    exp_kept = min(len(o["pids_before"]), want)
                    if kept != exp_kept:
                        out.append(dict(signature=f"C10:workers-restarted:{kept}vs{exp_kept}|cause={c}",
                                        msg=f"resize {len(o['pids_before'])}->{want} kept {kept} "
                                            f"of the previous workers instead of {exp_kept}"))
    # an idle timer that fires at the instant "spawn" of the resize (while the resizing thread is
    # inside the region the processes-management lock protects) is refused and re-armed: that
    # worker is still there for as long as its new period has not elapsed
    timeout = rec.prog.get("pool", {}).get("timeout")
    # (only executions whose deviations are all timer firings: the worker then tests the lock at
    # once; a preemption between the firing and the test may carry it past the release)
    if timeout and not kill and not rec.policy.get("zero_when") \
            and all(str(d[2]).startswith("timeout:") for d in rec.devs) \
            and rec.prog["name"].startswith("grow-then-rest"):
        last_t = {}
        for ev in rec.trace:
            if ev[0] == "T" and "worker" in ev[1] and len(ev) > 5:
                last_t[ev[5]] = ev
        last = None
        for o in rec.ops:
            if o["op"][0] == "reuse" and o["returned"] and o["exc"] is None and o.get("same") \
                    and o.get("started_before", True) and not o["broken"]:
                last = o
            elif o["op"][0] == "probe" and o.get("value") and last is not None:
                pv = o["value"]
                for pid, ev in last_t.items():
                    if ev[3] and pid in last["pids_before"] and pv["now"] < ev[4] + timeout \
                            and pid not in pv.get("pids", []):
                        out.append(dict(
                            signature=f"C10:worker-left-after-timeout-during-spawn|cause={c}",
                            msg=f"the idle timer of worker {pid} fired (t={ev[4]:.3f}) while the "
                                f"resize to {last['op'][1].get('max_workers')} was spawning workers "
                                f"(lock held: the worker must stay for another period of "
                                f"{timeout}); at t={pv['now']:.3f} it is gone: pool {pv.get('pids')}, "
                                f"previous {last['pids_before']}"))
    return out, _cls(rec)


# ---- C20 (simulation part) ------------------------------------------------------------------
def c20(rec):
    v, _ = O.termination(rec)
    out = []
    c = O.cause(rec)
    acc = [o["value"] for o in rec.ops if o["op"][0] == "account" and "value" in o]
    if v and len(acc) < 2:
        return [], _cls(rec)     # hangs are C01's; accounting applies to completed lifecycles
    # (a run that hangs only after both accounts were taken - e.g. at interpreter exit - is
    # still judged on what the two completed lifecycles left behind)
    if len(acc) >= 2:
        a, b = acc[0], acc[-1]
        # comparable iff the repetition had at most as many abrupt deaths as the first run
        same_history = (b["deaths"] - a["deaths"]) <= a["deaths"]
        for k in ("fds", "threads", "zombies", "alive", "sems"):
            if same_history and len(b[k]) > len(a[k]):
                out.append(dict(signature=f"C20:{k}-accumulate:{len(a[k])}->{len(b[k])}|cause={c}",
                                msg=f"parent {k} grow when the lifecycle is repeated: after one "
                                    f"{a[k]}, after two {b[k]}"))
        if same_history and b["children"] > a["children"]:
            out.append(dict(signature=f"C20:children-accumulate|cause={c}",
                            msg=f"tracked child objects grow {a['children']}->{b['children']}"))
        # a healthy (never broken, no death) lifecycle leaves nothing at all
        if not O.worker_deaths(rec) and not any(e["broken"] for e in rec.execs):
            for k in ("fds", "threads", "zombies", "alive", "sems"):
                if b[k]:
                    out.append(dict(signature=f"C20:{k}-left:{len(b[k])}|cause={c}",
                                    msg=f"after clean lifecycles the parent still has {k}={b[k]}"))
    return out, _cls(rec) + (len(acc),)


# ---- C19 (simulation part): depth shipped to / seen by every worker -------------------------
def c19(rec):
    v, _ = O.termination(rec)
    out = []
    c = O.cause(rec)
    want = rec.prog.get("pool", {}).get("parent_depth", 0) + 1
    ran = {ev[1] for ev in rec.log if ev[0] == "body"}
    for p in rec.procs:
        if p["depth_arg"] is not None and p["depth_arg"] != want:
            out.append(dict(signature=f"C19:depth-shipped:{p['depth_arg']}vs{want}|cause={c}",
                            msg=f"{p['label']} was started with current_depth={p['depth_arg']}, "
                                f"its creator is at depth {want - 1}"))
        if p["label"] in ran and p["depth_seen"] != want:
            out.append(dict(signature=f"C19:depth-seen:{p['depth_seen']}vs{want}|cause={c}",
                            msg=f"{p['label']} ran a task while its nesting depth was "
                                f"{p['depth_seen']} instead of {want}"))
    for ev in rec.log:
        if ev[0] == "init" and ev[3] != want:
            out.append(dict(signature=f"C19:depth-in-initializer:{ev[3]}vs{want}|cause={c}",
                            msg=f"{ev[1]} ran its initializer while its nesting depth was "
                                f"{ev[3]} instead of {want}: an executor created there is "
                                f"mis-numbered"))
            break
    return out, _cls(rec) + (len(rec.procs),)


# ---- C09: get_reusable_executor against the documented decision ---------------------------
def c09(rec):
    v, _ = O.termination(rec)
    out = [dict(x, signature="C09:" + x["signature"]) for x in v]
    c = O.cause(rec)
    pool = rec.prog.get("pool", {})
    single = len(rec.prog["threads"]) == 1
    kill = O.had_kill(rec)
    timed = any(ev[0] == "T" and "worker" in ev[1] for ev in rec.trace) \
        or bool(rec.policy.get("zero_when"))
    m = None          # model of the singleton: dict(id, kwargs, mw, broken, shutdown, started)
    next_id = 0
    t0 = [o for o in rec.ops if o["t"] == 0]
    if single:
        ops, post = t0, []
    else:
        # thread 0 alone up to the op that starts the user threads, racing afterwards
        k = next((i for i, o in enumerate(t0) if o["op"][0] == "start_users"), None)
        if k is None:
            k = next((i for i, o in enumerate(t0) if o["op"][0] in ("new", "reuse")), -1)
        ops, post = t0[:k + 1], t0[k + 1:]
    for o in ops:
        name = o["op"][0]
        if name == "new":
            m = dict(id=next_id, kwargs=(pool.get("timeout"), pool.get("init")),
                     mw=pool.get("max_workers", 2), broken=False, shutdown=False, started=False)
            next_id += 1
        elif name == "submit" and m is not None and o["exc"] is None:
            m["started"] = True
            m["idle"] = False
            if o["op"][2] == "die":
                # the task takes its worker down at some later time: until the caller is told
                # (a future failing with a broken-pool error) both answers are right
                m["maybe_broken"] = True
        elif name == "sleep" and m is not None and pool.get("timeout") and o["op"][1] > pool["timeout"]:
            m["idle"] = True           # every worker may have left on its idle timeout
        elif name == "kill" and m is not None and m["started"] and not m["shutdown"]:
            m["broken"] = True
        elif name == "result" and m is not None and o.get("value") and o["value"][0] == "exc" \
                and (o["value"][1] in BPP or any(n in BPP for n in o["value"][4])):
            # the caller has been told the pool broke: from now on it is not reusable
            m["broken"] = True
        elif name == "shutdown" and m is not None:
            m["shutdown"] = True
        elif name == "reuse":
            kw = o["op"][1]
            newkw = (kw.get("timeout", pool.get("timeout")), kw.get("init", pool.get("init")))
            reuse = kw.get("reuse", "auto")
            want_mw = kw.get("max_workers")
            if want_mw is None:
                want_mw = m["mw"] if (reuse is True and m is not None) else pool.get("cpu_count", 2)
            if m is None:
                fresh = True
            else:
                if reuse == "auto":
                    reuse = newkw == m["kwargs"]
                fresh = bool(m["broken"] or m["shutdown"] or not reuse)
                if not fresh and m.get("maybe_broken") and o["returned"] and "same" in o:
                    fresh = not o["same"]          # the crash may or may not have been seen yet
            if not o["returned"] or o["exc"] is not None or "same" not in o:
                if not v:
                    out.append(dict(signature=f"C09:get-raised:{(o['exc'] or ['?'])[0]}|cause={c}",
                                    msg=f"get_reusable_executor({kw}) raised {o['exc']}"))
                break
            if fresh:
                was_started = bool(m and m["started"])
                m = dict(id=next_id, kwargs=newkw, mw=want_mw, broken=False, shutdown=False,
                         started=False)
                next_id += 1
                if o["same"]:
                    out.append(dict(signature=f"C09:reused-unusable|cause={c}",
                                    msg=f"get_reusable_executor({kw}) returned the previous "
                                        f"instance although it was broken/shut down or reuse "
                                        f"was not allowed"))
                if o["alive_workers"] or o["alive_managers"] or o["unreaped"]:
                    out.append(dict(signature=f"C09:previous-not-shut-down|cause={c}",
                                    msg=f"a fresh executor was returned while the previous one "
                                        f"still had workers {o['alive_workers']} / unreaped "
                                        f"{o['unreaped']} / {o['alive_managers']} manager thread(s)"))
            else:
                m["mw"] = want_mw
                if not o["same"]:
                    out.append(dict(signature=f"C09:not-reused|cause={c}",
                                    msg=f"get_reusable_executor({kw}) built a new executor "
                                        f"although the previous one was healthy and reusable"))
                elif m["started"] and not kill and not timed and (
                        o["n_workers"] > want_mw
                        or (o["n_workers"] != want_mw and not m.get("idle"))):
                    out.append(dict(signature=f"C09:wrong-worker-count:{o['n_workers']}vs{want_mw}"
                                              f"|cause={c}",
                                    msg=f"reused executor has {o['n_workers']} workers, "
                                        f"{want_mw} requested"))
            if o["id"] != m["id"]:
                out.append(dict(signature=f"C09:executor-id:{o['id']}vs{m['id']}|cause={c}",
                                msg=f"executor_id is {o['id']}, expected {m['id']}"))
            if (o["broken"] or o["shutdown"]) and not kill:
                out.append(dict(signature=f"C09:returned-unusable|cause={c}",
                                msg=f"returned executor broken={o['broken']} shutdown={o['shutdown']}"))
            if o["max_workers"] != want_mw:
                out.append(dict(signature=f"C09:max-workers:{o['max_workers']}vs{want_mw}|cause={c}",
                                msg=f"returned executor has _max_workers={o['max_workers']}, "
                                    f"{want_mw} requested"))
    # "correctly configured": the executor handed out can run the requested number of tasks at
    # the same time (asked with that many long tasks once the call has returned)
    if not v and not kill:
        for o in rec.ops:
            if o["op"][0] == "expect_inside" and o.get("value") != o["op"][1] \
                    and not any(e["broken"] for e in rec.execs) \
                    and not (o.get("queue_size") is not None and o["queue_size"] < o["op"][1]
                             and o.get("cpus") is not None
                             and o["queue_size"] == 2 * o["cpus"] + 1):      # F23's circumstances
                out.append(dict(signature=f"C09:cannot-run-requested-workers:{o.get('value')}of"
                                          f"{o['op'][1]}:queue={o.get('queue_size')}|cause={c}",
                                msg=f"the reused executor was asked for {o['op'][1]} workers; with "
                                    f"that many long tasks pending only {o.get('value')} run at the "
                                    f"same time (call queue: {o.get('queue_size')} slots)"))
    if not single and not v and not kill:
        out += _c09_racing(rec, m, next_id, pool, post, c)
    if not single and not v:
        # racing callers: every one got an executor and its task completed
        for o in rec.ops:
            if o["op"][0] == "reuse" and (o["exc"] is not None or not o["returned"]):
                out.append(dict(signature=f"C09:racing-get-failed:{(o['exc'] or ['not-returned'])[0]}"
                                          f"|cause={c}",
                                msg=f"get_reusable_executor raised {o['exc']} in thread {o['t']}"))
        for key, f in rec.fut.items():
            exp = expected(rec.values[key][0], key, rec.values[key][1:])
            if not matches(f, exp) and not (kill and is_bpp(f)):
                out.append(dict(signature=f"C09:racing-task:{f[0]}:{f[1] if f[0]=='exc' else ''}"
                                          f"|cause={c}",
                                msg=f"task {key} of a racing caller ended as {f[:3]}"))
    return out, _cls(rec) + (next_id,)


def _c09_step(m, next_id, kw, pool):
    """The documented decision of one get_reusable_executor call on the model singleton m:
    -> (m', next_id', expected executor_id)."""
    newkw = (kw.get("timeout", pool.get("timeout")), kw.get("init", pool.get("init")))
    reuse = kw.get("reuse", "auto")
    want_mw = kw.get("max_workers")
    if want_mw is None:
        want_mw = m["mw"] if (reuse is True and m is not None) else pool.get("cpu_count", 2)
    if m is None:
        fresh = True
    else:
        if reuse == "auto":
            reuse = newkw == m["kwargs"]
        fresh = bool(m["broken"] or m["shutdown"] or not reuse)
    if fresh:
        m = dict(id=next_id, kwargs=newkw, mw=want_mw, broken=False, shutdown=False,
                 started=False)
        next_id += 1
    else:
        m = dict(m, mw=want_mw)
    return m, next_id, m["id"]


def _merges(seqs):
    """all interleavings of the given sequences that keep each sequence's own order"""
    seqs = [s for s in seqs if s]
    if not seqs:
        yield []
        return
    for i, s in enumerate(seqs):
        rest = seqs[:i] + [s[1:]] + seqs[i + 1:]
        for tail in _merges(rest):
            yield [s[0]] + tail


def _c09_racing(rec, m, next_id, pool, post, c):
    """get_reusable_executor is atomic: the executors handed to racing callers must be those
    of the calls taken in SOME sequential order (brute force over the few interleavings of the
    callers' call sequences), judged by executor_id."""
    seqs = [[o for o in post if o["op"][0] == "reuse"]]
    nthreads = len(rec.prog["threads"])
    for t in range(1, nthreads):
        seqs.append([o for o in rec.ops if o["t"] == t and o["op"][0] == "reuse"])
    calls = [o for sq in seqs for o in sq]
    if not calls or any(o["exc"] is not None or not o["returned"] or "id" not in o for o in calls):
        return []
    if any(o["op"][0] in ("kill", "shutdown") for o in rec.ops if o["t"] != 0) or \
            any(o["op"][0] in ("kill", "shutdown") for o in post[:-1]):
        return []
    # an explicit shutdown by the user that started before the call returned may legitimately
    # land on the instance being handed out (the statement is about the call's beginning)
    stops = [x.get("seq_start", 0) for x in rec.ops if x["op"][0] in ("shutdown", "kill", "with_exit")]
    cb_stop = any(x["op"][0] in ("callback", "late_callback") and len(x["op"]) > 2 and str(x["op"][2]).startswith("shutdown")
                  for x in rec.ops)
    # (op granularity only: in line-granular executions another caller's replacement may run
    # between the release of the executor lock and the return statement - legitimate, and
    # indistinguishable from a replacement during the call)
    dead = [(o["t"], o["op"][1], o["id"]) for o in calls
            if (o.get("shutdown") or o.get("broken")) and not cb_stop and not rec.policy.get("lines")
            and not any(st < o.get("seq_end", 0) for st in stops)]
    if dead:
        # get_reusable_executor holds the executor lock from its decision to its return: what
        # it hands out is alive at that moment, whoever replaces it afterwards
        return [dict(signature=f"C09:racing-returned-unusable|cause={c}",
                     msg=f"a racing get_reusable_executor call returned an executor that was "
                         f"already shut down / broken at that moment (thread, kwargs, id): {dead}")]
    seen = set()
    for order in _merges(seqs):
        mm, nid = (dict(m) if m else None), next_id
        ok = True
        for o in order:
            mm, nid, exp = _c09_step(mm, nid, o["op"][1], pool)
            if o["id"] != exp:
                ok = False
                break
        if ok:
            return []
        seen.add(tuple(id(o) for o in order))
    got = [(o["t"], o["op"][1].get("max_workers"), o["id"]) for o in calls]
    return [dict(signature=f"C09:racing-not-atomic:ids={sorted(o['id'] for o in calls)}|cause={c}",
                 msg=f"racing get_reusable_executor calls (thread, max_workers, executor_id) "
                     f"{got}: no sequential order of the calls yields these executors "
                     f"(singleton before the race: {m and m['id']}, next id {next_id})")]


# ---- C18 (simulation part): every worker that runs a task ran the initializer first --------
def c18(rec):
    v, _ = O.termination(rec)
    out = []
    c = O.cause(rec)
    init = rec.prog.get("pool", {}).get("init")
    inited = set()
    for ev in rec.log:
        if ev[0] == "init":
            inited.add(ev[1])
        elif ev[0] == "body" and init and ev[1] not in inited:
            out.append(dict(signature=f"C18:task-in-uninitialised-worker|cause={c}",
                            msg=f"{ev[1]} ran task {ev[2]} without having run the configured "
                                f"initializer (log: {rec.log[:12]})"))
            break
    if init == "fail" and not v:
        ran = [ev for ev in rec.log if ev[0] == "body"]
        if ran:
            out.append(dict(signature=f"C18:task-after-failed-initializer|cause={c}",
                            msg=f"tasks ran although the initializer failed: {ran[:4]}"))
        if not any(e["broken"] for e in rec.execs) and rec.fut:
            out.append(dict(signature=f"C18:init-failure-not-broken|cause={c}",
                            msg="the initializer failed but the pool was not flagged broken"))
    if init == "fail3" and not v:
        for o in rec.ops:
            if o["op"][0] == "probe" and o.get("value") and not o["value"]["broken"] \
                    and sum(1 for ev in rec.log if ev[0] == "init") >= 3:
                out.append(dict(signature=f"C18:late-init-failure-not-broken|cause={c}",
                                msg="the initializer failed in a worker added later (resize) and "
                                    "everything came to rest, yet the pool is not flagged broken: "
                                    "it would be handed out again with a dead worker"))
    if init and any(ev[0] == "init" and ev[2] != "I" and ev[2] != "I2" for ev in rec.log):
        out.append(dict(signature=f"C18:initargs-wrong|cause={c}", msg=f"{rec.log[:6]}"))
    return out, _cls(rec) + (len(inited),)


# ---- C13 (simulation part): tracker messages vs the simulated semaphore namespace ----------
def c13(rec):
    v, _ = O.termination(rec)
    out = []
    c = O.cause(rec)
    reg, unreg = {}, {}
    unlinked = set()
    for (cmd, name, rtype, proc) in rec.tracker_log:
        if rtype != "semlock":
            continue
        if proc != "parent":
            out.append(dict(signature=f"C13:worker-side-{cmd.lower()}|cause={c}",
                            msg=f"{proc} sent {cmd} for {name}: only the creating process "
                                f"tracks a semaphore (an unpickled copy must not)"))
            break
        if cmd == "UNLINK":
            unlinked.add(name)
        elif cmd == "REGISTER":
            reg[name] = reg.get(name, 0) + 1
        elif cmd == "UNREGISTER":
            if name not in unlinked and len(out) < 3:
                out.append(dict(signature=f"C13:unregistered-before-unlinked|cause={c}",
                                msg=f"{name} was unregistered from the tracker while still "
                                    f"linked: a death of the process right there leaks it for "
                                    f"good (nobody is left to unlink it)"))
            unreg[name] = unreg.get(name, 0) + 1
            if name not in reg:
                out.append(dict(signature=f"C13:unregister-before-register|cause={c}", msg=name))
    dup = [n for n, k in reg.items() if k != 1]
    if dup:
        out.append(dict(signature=f"C13:registered-{reg[dup[0]]}-times|cause={c}",
                        msg=f"semaphores registered more than once: {dup[:3]}"))
    if reg and len(reg) != rec.sems_created:
        out.append(dict(signature=f"C13:created-but-not-registered|cause={c}",
                        msg=f"{rec.sems_created} named semaphores created, {len(reg)} registered"))
    if not v and rec.exit_done:
        if rec.sem_names:
            out.append(dict(signature=f"C13:semaphore-outlives-exit:{len(rec.sem_names)}|cause={c}",
                            msg=f"still linked after the interpreter exit: {rec.sem_names[:4]}"))
        pending = [n for n in reg if unreg.get(n, 0) == 0]
        if pending:
            out.append(dict(signature=f"C13:false-leak-report:{len(pending)}|cause={c}",
                            msg=f"the tracker still counts {pending[:4]} at end of life although "
                                f"the interpreter exit ran every finalizer"))
    return out, _cls(rec) + (len(reg),)
