"""Runs one execution of one driver program under one choice prefix and returns a Record.

A program is a JSON-able dict:
  {"name": str,
   "pool": {"kind": "plain"|"reusable", "max_workers": int, "timeout": float|None,
            "init": None|"ok"|"fail", "cpu_count": int, "psutil": bool, "pipe_cap": int},
   "threads": [[op, ...], ...]}           # thread 0 is the main thread
ops (lists):  ["new"] | ["submit", key, kind, *args] | ["result", key] | ["cancel", key]
  | ["wait_all"] | ["shutdown", wait, kill] | ["del"] | ["with_exit"] | ["sleep", dt]
  | ["release", key] | ["map", key, fn, chunksize, [len,...]] | ["reuse", {kwargs}]
  | ["callback", key, "raise"|"ok"] | ["kill", worker_index] | ["hold"] | ["submit_after", key]
  | ["exit"]
"""
import gc
import sys

from . import kernel as K
from . import shims, tasks, world as W
from .kernel import SimAbort, SimKilled

_prev_hook = sys.unraisablehook


def _unraisable(u):
    if u.exc_type is not None and issubclass(u.exc_type, (SimAbort, SimKilled)):
        return
    _prev_hook(u)


sys.unraisablehook = _unraisable

ARG = {"bad": tasks.BadArg, "exit": tasks.ExitAtPickle, "huge": tasks.HugeArg,
       "index": tasks.IndexErrArg, "key": tasks.KeyErrArg}
ARG.update(tasks.EXC_ARG_CLASSES)


class Record:
    pass


def _summ_exc(e):
    if e is None:
        return None
    c = e.__cause__
    return (type(e).__name__, _args(e), type(c).__name__ if c is not None else None,
            [k.__name__ for k in type(e).__mro__[1:4]])


def _args(e):
    try:
        return tuple(a if isinstance(a, (int, str, type(None))) else repr(a)[:40]
                     for a in e.args)
    except Exception:
        return ("?",)


KILL_FILTERS = {
    None: None,
    "after_shutdown": lambda s, p: any(W.rawflag(h["flags"], "shutdown") for h in s.world.execs),
    "before_shutdown": lambda s, p: not any(W.rawflag(h["flags"], "shutdown") for h in s.world.execs),
}


def _kill_filter(kill_when):
    if kill_when is not None and kill_when.startswith("in:"):
        # kills only while a parent thread executes the named loky function
        fn = kill_when[3:]
        return lambda s, p: s._parent_in(fn)
    return KILL_FILTERS[kill_when]


def run_program(prog, prefix=(), kinds=("P", "T", "K"), kill_code=-9, track_states=True,
                monitors=(), horizon=50_000, kill_when=None, starve=None, p_scope=None,
                t_scope=None, t_when=None, p_when=None, t_cur=None,
                zero_when=None, lines=None, p_cur=None):
    pool = prog.get("pool", {})
    S = K.Sched(prefix, kinds=kinds, kill_code=kill_code, horizon=horizon,
                pipe_cap=pool.get("pipe_cap", 65536), track_states=track_states,
                kill_filter=_kill_filter(kill_when), starve=starve, p_scope=p_scope,
                t_scope=t_scope, t_when=t_when, p_when=p_when, t_cur=t_cur,
                zero_when=zero_when, lines=lines, p_cur=p_cur)
    K.S = S
    tasks.reset()
    gc_was = gc.isenabled()
    gc.disable()
    w = W.build_world(S, cpu_count=pool.get("cpu_count", 2), psutil=pool.get("psutil", True))
    w.slow_start = pool.get("slow_start")
    S.world = w
    w.werror = bool(pool.get("werror"))
    if pool.get("parent_depth"):
        w.pe._CURRENT_DEPTH = pool["parent_depth"]
    rec = Record()
    rec.policy = dict(starve=starve, zero_when=zero_when, lines=bool(lines))
    rec.prog = prog
    rec.futures = {}
    rec.ops = []
    rec.values = {}
    rec.cancelled_true = set()
    rec.notes = []
    rec.exit_done = False
    rec.monitor_hits = []
    ctx = {"e": None, "execs": [], "fut": rec.futures, "w": w, "rec": rec, "S": S}
    for m in monitors:
        S.monitors.append(lambda s, m=m: m(s, w, rec))

    def _tick(rec):
        rec.seq = getattr(rec, "seq", 0) + 1      # global order of op starts and returns
        return rec.seq

    def run_thread(ti, ops):
        for oi, op in enumerate(ops):
            entry = {"t": ti, "i": oi, "op": op, "returned": False, "exc": None}
            rec.ops.append(entry)
            entry["seq_start"] = _tick(rec)
            try:
                r = do_op(ctx, op, entry)
                entry["returned"] = True
                entry["seq_end"] = _tick(rec)
                if r == "EXIT":
                    return "EXIT"
            except (SimAbort, SimKilled):
                raise
            except BaseException as e:   # what the API legitimately raises in a user thread
                entry["returned"] = True
                entry["exc"] = _summ_exc(e)
                del e

    def main():
        thr = w.mods["threading"]
        users = []
        for ti, ops in enumerate(prog["threads"][1:], 1):
            t = thr.Thread(target=run_thread, args=(ti, ops), name=f"user#{ti}")
            users.append(t)
        started = False
        ops0 = prog["threads"][0]
        explicit = any(op[0] == "start_users" for op in ops0)
        # user threads start right after the ["new"] op of thread 0 (or at once)
        for oi, op in enumerate(ops0):
            entry = {"t": 0, "i": oi, "op": op, "returned": False, "exc": None}
            rec.ops.append(entry)
            entry["seq_start"] = _tick(rec)
            try:
                r = do_op(ctx, op, entry)
                entry["returned"] = True
                entry["seq_end"] = _tick(rec)
            except (SimAbort, SimKilled):
                raise
            except BaseException as e:
                entry["returned"] = True
                entry["exc"] = _summ_exc(e)
                r = None
                del e
            if not started and ((op[0] in ("new", "reuse") and not explicit)
                                or op[0] == "start_users" or oi == len(ops0) - 1):
                started = True
                for t in users:
                    t.start()
            if r == "EXIT":
                break
            if r == "HOLD":
                rec.held = True
        if not started:
            for t in users:
                t.start()
        for t in users:
            t.join()
        rec.main_ops_done = True
        if getattr(rec, "held", False):
            return
        W.interpreter_exit(w)
        rec.exit_done = True

    rec.main_ops_done = False
    try:
        verdict = S.run(main)
    finally:
        K.S = None
    harvest(rec, S, w, verdict)
    ctx.clear()
    S.world = None
    w.teardown()
    tasks.reset()
    if gc_was:
        gc.enable()
    return rec


def _iterables(lens, shape):
    """Fresh iterables for one map() call (built again for the reference builtin map)."""
    lists = [list(range(i * 100, i * 100 + n)) for i, n in enumerate(lens)]
    if shape == "list":
        return lists
    if shape == "iter":
        return [iter(x) for x in lists]
    if shape == "alias":
        it = iter(list(range(sum(lens) + len(lens))))
        return [it] * len(lens)
    if shape == "dep":
        taken = [0]

        def counted(xs):
            for x in xs:
                taken[0] += 1
                yield x

        def dependent(n):
            for _ in range(n):
                yield taken[0] * 1000
        return [counted(lists[0])] + [dependent(n) for n in lens[1:]]
    raise ValueError(shape)


def _pool_kwargs(w, pool):
    kw = {}
    if pool.get("init") == "ok":
        kw.update(initializer=tasks.init, initargs=("I",))
    elif pool.get("init") == "fail":
        kw.update(initializer=tasks.init_fail, initargs=("I",))
    elif pool.get("init") == "fail3":
        kw.update(initializer=tasks.init_fail_from_3rd, initargs=("I",))
    elif pool.get("init") == "ok-falsy":
        kw.update(initializer=tasks.HOOKS, initargs=("I",))
    elif pool.get("init") == "ok-nevertrue":
        kw.update(initializer=tasks.NEVERTRUE, initargs=("I",))
    elif pool.get("init") == "ok-method":
        kw.update(initializer=tasks.HOOKS.run, initargs=("I",))
    elif pool.get("init") == "ok-partial":
        import functools
        kw.update(initializer=functools.partial(tasks.init, "I"), initargs=())
    return kw


def do_op(ctx, op, entry):
    w, rec, S = ctx["w"], ctx["rec"], ctx["S"]
    pool = rec.prog.get("pool", {})
    name = op[0]
    if name == "new":
        kw = _pool_kwargs(w, pool)
        if pool.get("kind", "plain") == "plain":
            e = w.pe.ProcessPoolExecutor(max_workers=pool.get("max_workers", 2),
                                         timeout=pool.get("timeout"), context=None, **kw)
        else:
            e = w.re.get_reusable_executor(max_workers=pool.get("max_workers", 2),
                                           timeout=pool.get("timeout"), **kw)
        ctx["e"] = e
        del e
    elif name == "start_users":
        pass
    elif name == "reuse":
        kw = dict(op[1])
        if kw.pop("init", None) == "ok":
            kw.update(initializer=tasks.init, initargs=("I2",))
        kw.setdefault("timeout", pool.get("timeout"))
        base = _pool_kwargs(w, pool)
        for k, v in base.items():
            kw.setdefault(k, v)
        prev = ctx["e"]
        entry["pids_before"] = prev._processes.raw_keys() if prev is not None else []
        # workers are spawned at the first submit: before that a resize only records the size
        entry["started_before"] = prev is not None and prev._executor_manager_thread is not None
        del prev
        e = w.re.get_reusable_executor(**kw)
        for h in w.execs:
            if h["ref"]() is e:
                h["max_seen"] = e._max_workers
        entry["pids_after"] = e._processes.raw_keys()
        entry["stale_sentinels"] = _sentinels(e)
        entry["alive_workers"] = sorted(p.pid for p in S.procs.values()
                                        if p.label.startswith("worker") and p.alive)
        entry["unreaped"] = sorted(p.label for p in S.procs.values()
                                   if p.label.startswith("worker") and not p.alive and not p.reaped)
        entry["alive_managers"] = sum(1 for t in S.procs[K.PARENT_PID].threads
                                      if t.name.startswith("manager") and t.state != "done")
        entry["same"] = e is ctx["e"]
        entry["id"] = getattr(e, "executor_id", None)
        entry["n_workers"] = e._processes.raw_len()
        entry["max_workers"] = e._max_workers
        entry["broken"] = W.rawflag(e._flags, "broken") is not None
        entry["shutdown"] = W.rawflag(e._flags, "shutdown")
        ctx["e"] = e
        del e
    elif name == "submit":
        key, kind = op[1], op[2]
        a = op[3:]
        e = ctx["e"]
        if kind in ("ok",):
            f = e.submit(tasks.ok, key, *a)
        elif kind == "raise":
            f = e.submit(tasks.raise_, key)
        elif kind == "sysexit":
            f = e.submit(tasks.sysexit, key)
        elif kind == "kbint":
            f = e.submit(tasks.kbint, key)
        elif kind == "gate":
            f = e.submit(tasks.gate, key)
        elif kind == "die":
            f = e.submit(tasks.die, key, *a)
        elif kind == "big":
            f = e.submit(tasks.big, key, *a)
        elif kind == "unpicklable_result":
            f = e.submit(tasks.unpicklable_result, key)
        elif kind == "bad_unpickle_result":
            f = e.submit(tasks.bad_unpickle_result, key)
        elif kind.endswith("_arg") and kind[:-4] in ARG:
            f = e.submit(tasks.ident, key, ARG[kind.split("_")[0]]())
        elif kind == "bad_unpickle_arg":
            f = e.submit(tasks.ident, key, tasks.FailsToUnpickle())
        elif kind == "big_arg":
            f = e.submit(tasks.ident, key, tasks.BigArg(*a))
        elif kind == "slow_arg":
            f = e.submit(tasks.ident, key, tasks.SlowArg(*a))
        elif kind == "slow_bad_arg":
            f = e.submit(tasks.ident, key, tasks.SlowBadArg(*a))
        elif kind == "raise_badstr":
            f = e.submit(tasks.raise_badstr, key)
        elif kind == "raise_unprintable":
            f = e.submit(tasks.raise_unprintable, key)
        elif kind == "raise_badrepr_arg":
            f = e.submit(tasks.raise_with_arg, key, tasks.BadRepr())
        elif kind == "raise_badrepr_kwarg":
            f = e.submit(tasks.raise_with_arg, key, opt=tasks.BadRepr())
        elif kind == "raise_badrepr_fn":
            f = e.submit(tasks.BadReprCallable(), key)
        elif kind == "ok_badrepr_arg":
            f = e.submit(tasks.ident, key, tasks.BadRepr())
        elif kind == "leak":
            f = e.submit(tasks.leak, key)
        elif kind == "spawn_child":
            f = e.submit(tasks.spawn_child, key, *a)
        else:
            raise ValueError(kind)
        del e
        rec.futures[key] = f
        rec.values[key] = (kind,) + tuple(a)
    elif name == "callback":
        f = rec.futures.get(op[1])
        if f is not None:
            if op[2] == "raise":
                def cb(fut):
                    rec.notes.append(("callback", op[1]))
                    # any exception class, the ones outside Exception included
                    raise dict(KeyboardInterrupt=KeyboardInterrupt, SystemExit=SystemExit,
                               GeneratorExit=GeneratorExit, MemoryError=MemoryError,
                               StopIteration=StopIteration)[op[3]]("callback raises") \
                        if len(op) > 3 else RuntimeError("callback raises")
            elif op[2] == "resubmit":
                def cb(fut):
                    rec.notes.append(("callback", op[1]))
                    e2 = ctx["e"]
                    nk = "cb_" + op[1]
                    try:
                        rec.futures[nk] = e2.submit(tasks.ok, nk, 1)
                        rec.values[nk] = ("ok", 1)
                        rec.notes.append(("resubmitted", nk))
                    except (SimAbort, SimKilled):
                        raise
                    except BaseException as ex:
                        rec.notes.append(("resubmit-raised", type(ex).__name__))
            elif op[2] in ("shutdown", "shutdown_wait", "shutdown_kill"):
                def cb(fut):
                    rec.notes.append(("callback", op[1]))
                    e2 = ctx["e"]
                    try:
                        e2.shutdown(wait=op[2] == "shutdown_wait", kill_workers=op[2] == "shutdown_kill")
                        rec.notes.append(("callback-shutdown-returned", op[1]))
                    except (SimAbort, SimKilled):
                        raise
                    except BaseException as ex:
                        rec.notes.append(("callback-shutdown-raised", type(ex).__name__))
                    del e2
            elif op[2] == "reuse":
                # the callback (manager thread) asks for the reusable executor again
                def cb(fut):
                    rec.notes.append(("callback", op[1]))
                    kw = dict(op[3])
                    kw.setdefault("timeout", pool.get("timeout"))
                    try:
                        e2 = w.re.get_reusable_executor(**kw)
                        rec.notes.append(("callback-reuse-returned", op[1], e2._max_workers))
                        ctx["e"] = e2
                        del e2
                    except (SimAbort, SimKilled):
                        raise
                    except BaseException as ex:
                        rec.notes.append(("callback-reuse-raised", type(ex).__name__))
            elif op[2] == "add_callback":
                # a callback that registers another callback on the (finished) future
                def cb(fut):
                    rec.notes.append(("callback", op[1]))
                    fut.add_done_callback(lambda f2: rec.notes.append(("late-callback", op[1])))
            elif op[2] == "slow":
                def cb(fut):
                    shims.sim_sleep(op[3])
                    rec.notes.append(("callback", op[1]))
            else:
                def cb(fut):
                    rec.notes.append(("callback", op[1]))
            f.add_done_callback(cb)
    elif name == "result":
        f = rec.futures.get(op[1])
        if f is not None:
            try:
                entry["value"] = ("val", f.result())
            except (SimAbort, SimKilled):
                raise
            except BaseException as e:
                entry["value"] = ("exc",) + _summ_exc(e)
                del e
    elif name == "cancel":
        f = rec.futures.get(op[1])
        if f is not None:
            r = f.cancel()
            entry["value"] = r
            if r:
                rec.cancelled_true.add(op[1])
    elif name == "wait_all":
        seen = set()
        while True:      # done-callbacks may add futures while we wait
            todo = [(k, f) for k, f in list(rec.futures.items()) if k not in seen]
            if not todo:
                break
            for key, f in todo:
                seen.add(key)
                try:
                    f.result()
                except (SimAbort, SimKilled):
                    raise
                except BaseException:
                    pass
    elif name == "shutdown":
        e = ctx["e"]
        if e is not None:
            e.shutdown(wait=op[1], kill_workers=op[2])
            if op[1]:
                # what a waited shutdown promises at the moment it returns
                entry["undone_at_return"] = sorted(k for k, f in rec.futures.items() if not f.done())
                entry["managers_at_return"] = sum(
                    1 for t in S.procs[K.PARENT_PID].threads
                    if t.name.startswith("manager") and t.state != "done")
                entry["alive_workers_at_return"] = sorted(
                    p.label for p in S.procs.values() if p.label.startswith("worker") and p.alive)
        del e
    elif name == "del":
        ctx["e"] = None
        w.mods["gc"].collect()
        for h in w.execs:
            if h["ref"]() is not None and op[1:] != ["keep"]:
                pass
    elif name == "with_exit":
        e = ctx["e"]
        if len(op) > 1 and op[1] == "raise":
            # the body of the with block raised: __exit__ receives the exception
            try:
                raise KeyError("body of the with block")
            except KeyError as ex:
                e.__exit__(KeyError, ex, ex.__traceback__)
                del ex
        else:
            e.__exit__(None, None, None)
        del e
    elif name == "late_callback":
        # add_done_callback on a future that is already finished runs it at once
        f = rec.futures.get(op[1])
        if f is not None:
            f.add_done_callback(lambda f2: rec.notes.append(("late-callback", op[1])))
            entry["value"] = ("late-callback", op[1]) in rec.notes
    elif name == "sleep":
        shims.sim_sleep(op[1])
    elif name == "release":
        S.point(label="release")
        tasks.GATES[op[1]] = True
    elif name == "map":
        key, fn, chunksize, lens = op[1], op[2], op[3], op[4]
        e = ctx["e"]
        shape = op[5] if len(op) > 5 else "list"
        its = _iterables(lens, shape)
        it = e.map(getattr(tasks, fn), *its, chunksize=chunksize)
        del e
        try:
            entry["value"] = ("val", list(it))
        except (SimAbort, SimKilled):
            raise
        except BaseException as ex:
            entry["value"] = ("exc",) + _summ_exc(ex)
            del ex
        entry["expect"] = list(map(getattr(tasks, fn), *_iterables(lens, shape)))
    elif name == "map_partial":
        # the lazy result iterator of map() is consumed only partly and then dropped
        key, fn, chunksize, lens, take = op[1], op[2], op[3], op[4], op[5]
        e = ctx["e"]
        it = e.map(getattr(tasks, fn), *_iterables(lens, "list"), chunksize=chunksize)
        del e
        got = []
        try:
            for _ in range(take):
                got.append(next(it))
            entry["value"] = ("val", got)
        except (SimAbort, SimKilled):
            raise
        except StopIteration:
            entry["value"] = ("val", got)
        except BaseException as ex:
            entry["value"] = ("exc",) + _summ_exc(ex)
            del ex
        if hasattr(it, "close"):
            it.close()
        del it
        entry["expect"] = list(map(getattr(tasks, fn), *_iterables(lens, "list")))[:take]
    elif name == "kill":
        S.point(label="ext.kill")
        ws = [p for p in S.procs.values() if p.label.startswith("worker#") and p.alive]
        if len(ws) > op[1]:
            S.trace.append(("ext-kill", ws[op[1]].label, K.stack_sig_proc(S, ws[op[1]])))
            S.kill_proc(ws[op[1]], S.cur, op[2] if len(op) > 2 else -9)
    elif name == "probe":
        e = ctx["e"]
        hh = [h for h in w.execs if h["ref"]() is e][0]
        entry["value"] = dict(n_workers=e._processes.raw_len(), max_workers=e._max_workers,
                              broken=W.rawflag(e._flags, "broken") is not None,
                              shutdown=W.rawflag(e._flags, "shutdown"),
                              slot=hh["slot_ksem"].value, queue_size=hh["queue_size"],
                              pids=e._processes.raw_keys(), now=S.now)
        del e
    elif name == "expect_inside":
        n = op[1]
        r = S.point(lambda: _inside_total(S) == n, 3600.0, label="expect_inside")
        entry["value"] = _inside_total(S)
        e = ctx["e"]
        hh = [h for h in w.execs if h["ref"]() is e]
        entry["queue_size"] = hh[0]["queue_size"] if hh else None
        entry["cpus"] = pool.get("cpu_count", 2)
        del e, hh
    elif name == "submit_expect":
        # a submit that is expected to raise (after shutdown / on a broken pool)
        e = ctx["e"]
        entry["broken_at_call"] = W.rawflag(e._flags, "broken") is not None
        entry["shutdown_at_call"] = W.rawflag(e._flags, "shutdown")
        try:
            f = e.submit(tasks.ok, op[1], 0)
            rec.futures[op[1]] = f
            rec.values[op[1]] = ("ok", 0)
            entry["value"] = ("accepted",)
        except (SimAbort, SimKilled):
            raise
        except BaseException as ex:
            entry["value"] = ("exc",) + _summ_exc(ex)
            del ex
        del e
    elif name == "settle":
        # a long sleep expires only at quiescence: every other thread has run until it blocks
        S.point(lambda: False, 7200.0, label="settle")
    elif name == "expect_resolved":
        # which futures are still unresolved now (asked at quiescence, the caller still alive)
        entry["value"] = sorted(k for k, f in rec.futures.items() if not f.done())
        entry["alive_workers"] = sorted(p.label for p in S.procs.values()
                                        if p.label.startswith("worker") and p.alive)
    elif name == "account":
        parent = S.procs[K.PARENT_PID]
        entry["value"] = dict(
            fds={fd: (e[0].id, e[1]) for fd, e in parent.fds.items() if fd != w.tracker_fd},
            threads=[t.name for t in parent.threads if not t.is_main and t.state != "done"
                     and not t.name.startswith("user#")],
            alive=[p.label for p in S.procs.values() if p.label.startswith("worker") and p.alive],
            zombies=[p.label for p in S.procs.values() if p.label.startswith("worker")
                     and not p.alive and not p.reaped],
            sems=sorted(S.sem_names), children=len(w.procm._children),
            deaths=sum(1 for p in S.procs.values() if p.label.startswith("worker")
                       and not p.alive and not p.clean))
    elif name == "hold":
        return "HOLD"
    elif name == "exit":
        return "EXIT"
    else:
        raise ValueError(f"unknown op {op}")


def _sentinels(e):
    """None sentinels sitting in the call queue (feeder buffer + pipe) of an executor."""
    import pickle
    q = e._call_queue
    if q is None:
        return 0
    n = sum(1 for x in list(q._buffer) if x is None)
    try:
        pipe = q._reader._pipe()
        for m in pipe.msgs:
            if m[2] >= m[1]:
                try:
                    if pickle.loads(m[0]) is None:
                        n += 1
                except Exception:
                    pass
    except Exception:
        pass
    return n


def _inside_total(S):
    return sum(p.info.get("inside", 0) for p in S.procs.values() if p.alive)


def harvest(rec, S, w, verdict):
    rec.verdict = verdict
    rec.internal_error = S.internal_error
    rec.thread_errors = list(S.thread_errors)
    rec.blocked = list(S.blocked_at_end)
    rec.devs = list(S.devs)
    rec.trace = list(S.trace)
    rec.alts_log = S.alts_log
    rec.nsteps = S.nsteps
    rec.now = S.now
    rec.states = S.states
    rec.transitions = S.transitions
    rec.log = list(tasks.LOG)
    rec.warnings = list(w.warnings)
    rec.logs = list(w.logs)
    rec.prints = list(w.prints)
    rec.tracker_log = list(w.tracker_log)
    rec.spawn_log = list(w.spawn_log)
    fut = {}
    for key, f in rec.futures.items():
        st = f._state
        if st == "FINISHED":
            if f._exception is not None:
                fut[key] = ("exc",) + _summ_exc(f._exception)
            else:
                fut[key] = ("val", f._result)
        elif st in ("CANCELLED", "CANCELLED_AND_NOTIFIED"):
            fut[key] = ("cancelled",)
        else:
            fut[key] = ("undone", st)
    rec.fut = fut
    rec.futures = None
    rec.procs = [dict(label=p.label, alive=p.alive, exitcode=p.exitcode, reaped=p.reaped,
                      clean=p.clean, nfds=len(p.fds), keep_fds=p.info.get("keep_fds"),
                      depth_arg=(p.info.get("args") or [None] * 8)[7]
                      if p.info.get("args") else None,
                      depth_seen=(p.info.get("globals") or {}).get("_CURRENT_DEPTH"),
                      kill_phase=p.info.get("kill_phase"))
                 for p in S.procs.values() if p.label.startswith("worker#")]
    rec.descendants = [dict(label=p.label, alive=p.alive) for p in S.procs.values()
                       if p.label.startswith("desc#")]
    parent = S.procs[K.PARENT_PID]
    rec.parent_fds = sorted(parent.fds)
    rec.parent_fd_kinds = {fd: (e[0].id, e[1]) for fd, e in parent.fds.items()}
    rec.tracker_fd = w.tracker_fd
    rec.parent_threads = [(t.name, t.state, t.daemon) for t in parent.threads
                          if not t.is_main]
    rec.sem_names = sorted(S.sem_names)
    rec.sems_created = len(S.sems)
    rec.execs = [dict(shutdown=W.rawflag(h["flags"], "shutdown"),
                      broken=(type(W.rawflag(h["flags"], "broken")).__name__,
                              str(W.rawflag(h["flags"], "broken"))[:400])
                      if W.rawflag(h["flags"], "broken") is not None else None,
                      kill_workers=W.rawflag(h["flags"], "kill_workers"),
                      alive=h["ref"]() is not None,
                      pending=h["pending"].raw_keys(), running=h["running"].raw(),
                      slot_value=h["slot_ksem"].value if "slot_ksem" in h else None,
                      queue_size=h.get("queue_size"), index=h["index"],
                      nprocs=h["processes"].raw_len()) for h in w.execs]
    rec.children_left = len(w.procm._children)
