"""Task bodies, arguments and initializers used by the driver programs.  They are real
module-level objects (pickled by reference) and report through a side channel (LOG) so that
at-most-once execution, initialisation and placement are observable by the oracles."""
import struct

from . import kernel as K

LOG = []       # (event, process label, ...)
GATES = {}     # work key -> bool (open?)


def reset():
    LOG.clear()
    GATES.clear()


def _log(ev, *a):
    s = K.S
    LOG.append((ev, s.cur.proc.label) + a)


def _inside(d):
    s = K.S
    s.cur.proc.info["inside"] = s.cur.proc.info.get("inside", 0) + d


def ref(kind, key, v=0):
    """Reference evaluation of a task (what the future must hold)."""
    if kind == "ok":
        return ("val", (key, v * v + 1))
    if kind == "gate":
        return ("val", ("gate", key))
    if kind == "big":
        return ("val", ("big", key, v))
    if kind == "raise":
        return ("exc", "ValueError", (key, "boom"))
    if kind == "sysexit":
        return ("exc", "SystemExit", (3,))
    if kind == "kbint":
        return ("exc", "KeyboardInterrupt", (key,))
    raise KeyError(kind)


def ok(key, v=0):
    _log("body", key)
    _inside(+1)
    try:
        K.S.point(label="task.ok")
    finally:
        _inside(-1)
    return (key, v * v + 1)


def raise_(key):
    _log("body", key)
    raise ValueError(key, "boom")


def sysexit(key):
    _log("body", key)
    raise SystemExit(3)


def kbint(key):
    _log("body", key)
    raise KeyboardInterrupt(key)


def gate(key):
    _log("body", key)
    _inside(+1)
    try:
        K.S.point(lambda: GATES.get(key, False), label=f"task.gate:{key}")
    finally:
        _inside(-1)
    return ("gate", key)


def die(key, code=-9):
    _log("body", key)
    s = K.S
    s.trace.append(("die", s.cur.proc.label, code))
    s.kill_proc(s.cur.proc, s.cur, code)
    raise K.SimKilled()


def spawn_child(key, n=1):
    """The task starts n long-lived descendant processes of its worker and returns."""
    _log("body", key)
    s = K.S
    me = s.cur.proc
    for i in range(n):
        sp = s.new_proc(f"desc#{me.label}.{key}.{i}", me)
        s.spawn(lambda: s.point(lambda: False, label="desc.sleep"), "main", sp, is_main=True)
    return (key, "spawned")


class BigResult:
    def __init__(self, key, n):
        self.key, self.n = key, n

    def __reduce__(self):
        return (_mk_big, (self.key, self.n, b"x" * self.n))


def _mk_big(key, n, pad):
    return ("big", key, n)


def big(key, n):
    _log("body", key)
    return BigResult(key, n)


class UnpicklableResult:
    def __reduce__(self):
        raise ValueError("result cannot be pickled")


def unpicklable_result(key):
    _log("body", key)
    return UnpicklableResult()


def _explode(*a):
    raise ValueError("cannot be unpickled")


class FailsToUnpickle:
    def __reduce__(self):
        return (_explode, ())


def bad_unpickle_result(key):
    _log("body", key)
    return FailsToUnpickle()


def ident(key, arg):
    _log("body", key)
    return (key, "ident")


class BadArg:
    def __reduce__(self):
        raise ValueError("argument cannot be pickled")


class ExitAtPickle:
    def __reduce__(self):
        raise SystemExit(7)


class IndexErrArg:
    def __reduce__(self):
        raise IndexError("pickling raises IndexError")


class KeyErrArg:
    def __reduce__(self):
        raise KeyError("pickling raises KeyError")


def _raising_arg(name, make):
    """An argument class whose pickling raises the exception built by make()."""
    def __reduce__(self):
        raise make()
    return type(name, (), {"__reduce__": __reduce__, "__module__": __name__})


import errno as _errno
EXC_ARGS = {
    "oserror": lambda: FileNotFoundError(_errno.ENOENT, "backing file is gone"),
    "epipe": lambda: BrokenPipeError(_errno.EPIPE, "Broken pipe (raised by the argument)"),
    "ebadf": lambda: OSError(_errno.EBADF, "Bad file descriptor (raised by the argument)"),
    "timeouterr": lambda: TimeoutError("pickling timed out"),
    "eof": lambda: EOFError("pickling raises EOFError"),
    "stopiter": lambda: StopIteration("pickling raises StopIteration"),
    "attr": lambda: AttributeError("pickling raises AttributeError"),
    "type": lambda: TypeError("pickling raises TypeError"),
    "assert": lambda: AssertionError("pickling raises AssertionError"),
    "memory": lambda: MemoryError("pickling raises MemoryError"),
    "recursion": lambda: RecursionError("pickling raises RecursionError"),
    "kbintp": lambda: KeyboardInterrupt("pickling raises KeyboardInterrupt"),
    "genexit": lambda: GeneratorExit("pickling raises GeneratorExit"),
}
EXC_ARG_CLASSES = {k: _raising_arg("Raises_" + k, v) for k, v in EXC_ARGS.items()}
for _c in EXC_ARG_CLASSES.values():
    globals()[_c.__name__] = _c


class HugeArg:
    def __reduce__(self):
        raise struct.error("'i' format requires -2147483648 <= number <= 2147483647")


class BigArg:
    """An argument whose pickle is `n` bytes long (fills small pipes)."""
    def __init__(self, n):
        self.n = n

    def __reduce__(self):
        return (len, (b"x" * self.n,))


class SlowArg:
    def __init__(self, d):
        self.d = d

    def __reduce__(self):
        from . import shims
        shims.sim_sleep(self.d)
        return (int, (7,))


class SlowBadArg:
    def __init__(self, d):
        self.d = d

    def __reduce__(self):
        from . import shims
        shims.sim_sleep(self.d)
        raise ValueError("argument cannot be pickled (slowly)")


def leak(key, rss=10 ** 9):
    _log("body", key)
    K.S.cur.proc.info["rss"] = rss
    return (key, "leak")


def _depth():
    g = K.S.cur.proc.info.get("globals")
    return None if g is None else g.get("_CURRENT_DEPTH")


def init(tag):
    _log("init", tag, _depth())


def init_fail(tag):
    _log("init", tag, _depth())
    raise RuntimeError("initializer failed")


def init_fail_from_3rd(tag):
    """Succeeds in the first two workers of the run, fails in every later one (a worker added
    by a resize, a re-spawned one)."""
    n = sum(1 for ev in LOG if ev[0] == "init")
    _log("init", tag, _depth())
    if n >= 2:
        raise RuntimeError("initializer failed in a late worker")


def sq(x):
    return x * x


def add(x, y):
    return x + 10 * y


def add3(x, y, z):
    return x + 10 * y + 100 * z


# map() functions by the TYPE of what they return (map == builtin map whatever the values are:
# containers, empty containers, None, strings - anything a result list could be confused with)
def vlist(x):
    return list(range(x))            # [] for the first item


def vnest(x):
    return [[x], [x, x]]


def vnone(x):
    return None


def vstr(x):
    return "ab" * x                  # "" for the first item


def vtuple(x):
    return (x,) * x                  # () for the first item


def vdict(x):
    return {i: x for i in range(x)}  # {} for the first item


def vlistsub(x):
    return _L(range(x))


class _L(list):
    pass


VALUE_FNS = ("vlist", "vnest", "vnone", "vstr", "vtuple", "vdict", "vlistsub")


# initializers by the SHAPE of the callable (a callable object may be falsy: an empty container
# of optional hooks with __call__; a partial; a bound method)
class Hooks:
    def __init__(self, hooks=()):
        self.hooks = list(hooks)

    def __len__(self):
        return len(self.hooks)

    def __call__(self, tag):
        init(tag)
        for h in self.hooks:
            h()

    def run(self, tag):
        init(tag)


class NeverTrue:
    def __bool__(self):
        return False

    def __call__(self, tag):
        init(tag)


HOOKS, NEVERTRUE = Hooks(), NeverTrue()


# hostile __str__/__repr__: nothing in the library may depend on being able to print a task's
# exception, callable or arguments
class SloppyError(Exception):
    def __str__(self):
        return "sloppy: " + self.detail          # attribute never set: AttributeError


class UnprintableError(Exception):
    def __repr__(self):
        raise RuntimeError("repr of the exception raises")

    __str__ = __repr__


class BadRepr:
    def __repr__(self):
        raise RuntimeError("repr of the argument raises")

    __str__ = __repr__


class BadReprCallable(BadRepr):
    def __call__(self, key):
        _log("body", key)
        raise ValueError(key, "boom")


def raise_badstr(key):
    _log("body", key)
    raise SloppyError(key)


def raise_unprintable(key):
    _log("body", key)
    raise UnprintableError(key)


def raise_with_arg(key, arg=None, **kw):
    _log("body", key)
    raise ValueError(key, "boom")
