"""Runs an engine-S check: a plan of (program, deviation bound, options), explored exhaustively
within the bound, one oracle, evidence + interface output."""
import os
import sys
import time

from .. import framework
from . import explore


LINE_OPTS = dict(kinds=("P",), lines="*", horizon=400_000)


def line_plan(progs, bound=1, **extra):
    """Plan entries exploring `progs` at source-line granularity (every line executed by a
    parent-process thread in loky code is a point where another parent thread may be run)."""
    seen, out = set(), []
    for p in progs:
        if p["name"] not in seen:
            seen.add(p["name"])
            out.append((p, bound, dict(LINE_OPTS, **extra)))
    return out


def run(pid, tier, plan, oracle_name, monitors_name=None, assumptions=(), extra_cov=None,
        replay=None, conformance=None, extra_violations=(), post_summary=None):
    rep = framework.Report(pid, tier, "model_checking")
    rep.assumptions = list(assumptions) + [
        "modelled kernel (vf.sim.shims) bound to the real primitives by vf.selftest "
        "conformance sequences",
        "no runnable thread is starved for a long (>1 s) timed wait: such waits expire only "
        "at quiescence",
        "schedules complete up to the stated deviation bound per program; decision points are "
        "kernel operations and operations on the executor's shared containers; for the programs "
        "marked '+lines' also every source line of loky executed by a parent-process thread",
    ]
    # bind the modelled kernel to the real primitives in this very run (depth-3 differential
    # conformance, ~1 s); a disagreement means the model is wrong: internal error, never a pass
    from .. import selftest
    conf = selftest.run(3)
    conformance = dict(conformance or {})
    conformance["kernel_model_sequences"] = conf["count"]
    conformance["kernel_model_disagreements"] = conf["n_disagreements"]
    conformance["count"] = conformance.get("count", 0) + conf["count"]
    if conf["n_disagreements"]:
        rep.internal.append(dict(error="kernel model disagrees with the real primitives",
                                 detail=conf["disagreements"][:3]))
    # cheap entries first (bounds 0 and 1), the bound-2 sweeps last: the budget, if it bites,
    # bites the most expensive explorations
    plan = sorted(plan, key=lambda e: e[1] >= 2)
    sd = framework.seed()
    if plan and sd:
        k = sd % len(plan)
        plan = list(plan[k:]) + list(plan[:k])     # seed only permutes the exploration order
    pool = explore.Pool(oracle_name, monitors_name)
    total = explore.Summary()
    per_prog = []
    # wall-clock budget: programs not started when it is used up are listed as skipped in the
    # evidence (never counted as explored); thorough defaults to 10 min per check (raise with VF_BUDGET_S),
    # VF_BUDGET_S=0 lifts it
    env_b = os.environ.get("VF_BUDGET_S")
    budget = (float(env_b) or None) if env_b is not None else (600.0 if tier == "thorough" else None)
    t0 = time.time()
    try:
        # programs explored at bound 0 (default schedule only) are dispatched in bulk
        zero = [(prog, opts) for prog, bound, opts in plan if bound == 0]
        if zero:
            t1 = time.time()
            s = pool.run([(prog, [[]], 0, opts) for prog, opts in zero])
            per_prog.append(dict(program=f"{len(zero)} programs at bound 0 (default schedule)",
                                 bound_completed=0, executions=s.executions,
                                 outcome_classes=len(s.classes), verdicts=dict(s.verdicts),
                                 wall_s=round(time.time() - t1, 1)))
            total.merge(s)
        for prog, bound, opts in plan:
            if bound == 0:
                continue
            t1 = time.time()
            if budget and t1 - t0 > budget:
                per_prog.append(dict(program=prog["name"], skipped="budget"))
                continue
            # with a budget, one program may use what is left of it (at least 3 min): a bound-2
            # sweep that does not fit is cut between rounds of first-level subtrees and
            # reported as partial
            limit = max(180.0, budget - (t1 - t0)) if budget else None
            s = explore.explore(pool, prog, bound, opts, oracle_name, time_limit=limit)
            done, tot = getattr(s, "subtrees_done", 0), getattr(s, "subtrees_total", 0)
            per_prog.append(dict(program=prog["name"],
                                 bound_completed=bound if done == tot else 0,
                                 **({"partial": f"bound {bound} cut by the budget: {done} of {tot} "
                                                f"groups of first-level subtrees explored"}
                                    if done != tot else {}),
                                 policy=(opts.get("starve") or "fifo")
                                 + ("+lines" if opts.get("lines") else ""),
                                 kinds="".join(sorted(opts.get("kinds", "PTK"))),
                                 executions=s.executions, root_decisions=s.root_decisions,
                                 outcome_classes=len(s.classes),
                                 verdicts=dict(s.verdicts), wall_s=round(time.time() - t1, 1)))
            total.merge(s)
            if os.environ.get("VF_VERBOSE"):
                print(f"  [{pid}] {prog['name']}: bound {bound} executions={s.executions} "
                      f"classes={len(s.classes)} violations={len(s.violations)} "
                      f"{time.time() - t1:.1f}s", flush=True)
    finally:
        pool.close()
    if post_summary is not None:
        conformance = dict(conformance or {})
        conformance.update(post_summary(total) or {})
    for v in total.violations:
        rep.add_violation(v)
    for v in extra_violations:
        rep.add_violation(v)
    rep.internal = list(rep.internal) + list(total.internal)
    nontrivial = total.executions      # every prefix is a distinct choice list by construction
    cov = dict(
        states=len(total.states), transitions=len(total.transitions),
        traces_validated_against_impl=(conformance or {}).get("count", 0),
        samples=total.samples[:6] or [{"none": True}],
        evaluations=total.executions, distinct_nontrivial=nontrivial,
        rule="one evaluation = one complete execution of a driver program on the real loky "
             "sources under the controlled scheduler, identified by its list of non-default "
             "choices; all choice lists up to the deviation bound are enumerated, so every "
             "execution is distinct; non-trivial = it differs from every other by at least one "
             "scheduling/kill/timeout decision (the default schedule of each program included)",
        decision_points=total.decisions, programs=len(plan),
        per_program=per_prog, deviations_by_kind=dict(total.dev_kinds),
        executions_by_depth={str(k): v for k, v in total.by_depth.items()},
        verdicts=dict(total.verdicts), outcome_classes=len(total.classes),
        kill_sites=len(total.kill_sites),
        states_note="distinct abstract states (thread status+current operation, semaphore "
                    "values, pipe contents, process table, executor bookkeeping) hashed at "
                    "every decision point; used for counting only, never for pruning"
                    + ("; capped" if total.states_capped else ""),
        exhaustive=False,
        conformance=conformance or {},
    )
    if extra_cov:
        cov.update(extra_cov)
    rep.coverage = cov
    code = rep.finish()
    skipped = [p["program"] for p in per_prog if p.get("skipped")]
    if skipped:
        print(f"[{pid}] budget of {budget:.0f} s used up: {len(skipped)} programs not explored "
              f"(listed as skipped in the evidence): {skipped[:6]}")
    print(f"[{pid}] tier={tier} programs={len(plan)} executions={total.executions} "
          f"states={len(total.states)} transitions={len(total.transitions)} "
          f"violations={len(total.violations)} internal={len(total.internal)} "
          f"wall={time.time() - t0:.1f}s")
    return code
