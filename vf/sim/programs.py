"""Library of small, sharp driver programs (see vf.sim.driver for the format)."""


def pool(kind="plain", max_workers=2, timeout=None, **kw):
    d = dict(kind=kind, max_workers=max_workers, timeout=timeout)
    d.update(kw)
    return d


def P(name, pool_, *threads):
    return dict(name=name, pool=pool_, threads=[list(t) for t in threads])


NEW = ["new"]
WAIT = ["wait_all"]


def sub(key, kind="ok", *a):
    return ["submit", key, kind, *a]


def shutdown(wait=True, kill=False):
    return ["shutdown", wait, kill]


# ---- curated programs ---------------------------------------------------------------------
def basic(mw=2, timeout=None):
    return P(f"basic-w{mw}-t{timeout}", pool(max_workers=mw, timeout=timeout),
             [NEW, sub("a", "ok", 2), sub("b", "ok", 3), ["result", "a"], ["result", "b"],
              shutdown(True)])


def one_task(mw=1, timeout=None, how="wait"):
    tail = {"wait": [shutdown(True)], "nowait": [shutdown(False), WAIT], "del": [["del"], WAIT],
            "exit": [], "with": [["with_exit"]]}[how]
    return P(f"one-w{mw}-t{timeout}-{how}", pool(max_workers=mw, timeout=timeout),
             [NEW, sub("a", "ok", 2)] + tail)


def warm_then(mw=1, timeout=0.05, how="nowait"):
    """First task completed (workers idle, timers armed), then a second one and a shutdown form."""
    tail = {"wait": [shutdown(True)], "nowait": [shutdown(False), WAIT], "del": [["del"], WAIT],
            "exit": [], "await": [WAIT, shutdown(True)]}[how]
    return P(f"warm-w{mw}-t{timeout}-{how}", pool(max_workers=mw, timeout=timeout),
             [NEW, sub("a", "ok", 2), ["result", "a"], sub("b", "ok", 3)] + tail)


def failing(kind, mw=1, timeout=None):
    return P(f"fail-{kind}-w{mw}", pool(max_workers=mw, timeout=timeout),
             [NEW, sub("a", kind), sub("b", "ok", 3), WAIT, shutdown(True)])


def failing_first_ok(kind, mw=2):
    return P(f"okfail-{kind}-w{mw}", pool(max_workers=mw),
             [NEW, sub("a", "ok", 1), sub("b", kind), sub("c", "ok", 3), WAIT, shutdown(True)])


def many_unsendable(n=4, mw=1):
    """More failing-to-pickle tasks than the call queue has slots, then a healthy one."""
    ops = [NEW] + [sub(f"x{i}", "bad_arg") for i in range(n)] + [sub("z", "ok", 1), WAIT,
                                                                  shutdown(True)]
    return P(f"unsendable{n}-w{mw}", pool(max_workers=mw), ops)


def die_task(mw=2):
    return P(f"die-w{mw}", pool(max_workers=mw),
             [NEW, sub("a", "ok", 1), sub("d", "die"), sub("c", "ok", 3), WAIT, shutdown(True)])


def big_result(mw=1, n=3000, cap=1024):
    return P(f"big-w{mw}", pool(max_workers=mw, pipe_cap=cap),
             [NEW, sub("a", "big", n), sub("b", "ok", 2), WAIT, shutdown(True)])


def reusable_full_queue():
    """cpu_count=1 -> 3 call-queue slots; 3 workers -> 3 sentinels at shutdown."""
    return P("reuse-fullq", pool("reusable", 3, None, cpu_count=1),
             [NEW, sub("a", "ok", 1), sub("b", "ok", 2), sub("c", "ok", 3), sub("d", "ok", 4),
              WAIT, shutdown(True)])


def reusable_resize(old=2, new=3, timeout=None, inflight=0):
    ops = [NEW, sub("a", "ok", 1), ["result", "a"]]
    for i in range(inflight):
        ops.append(sub(f"f{i}", "ok", i))
    ops += [["reuse", dict(max_workers=new)], sub("b", "ok", 2), WAIT, shutdown(True)]
    return P(f"resize-{old}to{new}-t{timeout}-f{inflight}", pool("reusable", old, timeout), ops)


def reusable_replace(timeout=None, kill=False):
    return P(f"replace-t{timeout}-k{kill}", pool("reusable", 2, timeout),
             [NEW, sub("a", "ok", 1), ["result", "a"],
              ["reuse", dict(max_workers=2, reuse=False, kill_workers=kill)],
              sub("b", "ok", 2), WAIT, shutdown(True)])


def two_submitters(mw=2, timeout=None):
    return P(f"two-submitters-w{mw}-t{timeout}", pool(max_workers=mw, timeout=timeout),
             [NEW, sub("a", "ok", 1), ["result", "a"]],
             [sub("b", "ok", 2), ["result", "b"]])


def exit_live(mw=2, timeout=None):
    return P(f"exit-live-w{mw}-t{timeout}", pool(max_workers=mw, timeout=timeout),
             [NEW, sub("a", "ok", 1), sub("b", "ok", 2)])


def cancel_prog(mw=1):
    return P(f"cancel-w{mw}", pool(max_workers=mw),
             [NEW, sub("a", "ok", 1), sub("b", "ok", 2), sub("c", "ok", 3), sub("d", "ok", 4),
              sub("e", "ok", 5), ["cancel", "e"], ["cancel", "d"], WAIT, shutdown(True)])


def callback_raises(mw=1):
    return P(f"callback-raises-w{mw}", pool(max_workers=mw),
             [NEW, sub("a", "ok", 1), ["callback", "a", "raise"], sub("b", "ok", 2), WAIT,
              shutdown(True)])


def kill_workers_shutdown(mw=2, gate=True):
    ops = [NEW, sub("a", "ok", 1), ["result", "a"], sub("g", "gate" if gate else "ok"),
           sub("h", "ok", 2), sub("i", "ok", 3), ["shutdown", True, True], WAIT]
    return P(f"killworkers-w{mw}-g{gate}", pool(max_workers=mw), ops)
