"""Library of small, sharp driver programs (see vf.sim.driver for the format)."""


def pool(kind="plain", max_workers=2, timeout=None, **kw):
    d = dict(kind=kind, max_workers=max_workers, timeout=timeout)
    d.update(kw)
    return d


def P(name, pool_, *threads):
    return dict(name=name, pool=pool_, threads=[list(t) for t in threads])


NEW = ["new"]
WAIT = ["wait_all"]


def sub(key, kind="ok", *a):
    return ["submit", key, kind, *a]


def shutdown(wait=True, kill=False):
    return ["shutdown", wait, kill]


# ---- curated programs ---------------------------------------------------------------------
def basic(mw=2, timeout=None):
    return P(f"basic-w{mw}-t{timeout}", pool(max_workers=mw, timeout=timeout),
             [NEW, sub("a", "ok", 2), sub("b", "ok", 3), ["result", "a"], ["result", "b"],
              shutdown(True)])


def one_task(mw=1, timeout=None, how="wait"):
    tail = {"wait": [shutdown(True)], "nowait": [shutdown(False), WAIT], "del": [["del"], WAIT],
            "exit": [], "with": [["with_exit"]]}[how]
    return P(f"one-w{mw}-t{timeout}-{how}", pool(max_workers=mw, timeout=timeout),
             [NEW, sub("a", "ok", 2)] + tail)


def warm_then(mw=1, timeout=0.05, how="nowait"):
    """First task completed (workers idle, timers armed), then a second one and a shutdown form."""
    tail = {"wait": [shutdown(True)], "nowait": [shutdown(False), WAIT], "del": [["del"], WAIT],
            "exit": [], "await": [WAIT, shutdown(True)]}[how]
    return P(f"warm-w{mw}-t{timeout}-{how}", pool(max_workers=mw, timeout=timeout),
             [NEW, sub("a", "ok", 2), ["result", "a"], sub("b", "ok", 3)] + tail)


def failing(kind, mw=1, timeout=None):
    return P(f"fail-{kind}-w{mw}", pool(max_workers=mw, timeout=timeout),
             [NEW, sub("a", kind), sub("b", "ok", 3), WAIT, ["probe"], shutdown(True)])


def failing_first_ok(kind, mw=2):
    return P(f"okfail-{kind}-w{mw}", pool(max_workers=mw),
             [NEW, sub("a", "ok", 1), sub("b", kind), sub("c", "ok", 3), WAIT, ["probe"],
              shutdown(True)])


def many_unsendable(n=4, mw=1):
    """More failing-to-pickle tasks than the call queue has slots, then a healthy one."""
    ops = [NEW] + [sub(f"x{i}", "bad_arg") for i in range(n)] + [sub("z", "ok", 1), WAIT,
                                                                  ["probe"], shutdown(True)]
    return P(f"unsendable{n}-w{mw}", pool(max_workers=mw), ops)


def die_task(mw=2):
    return P(f"die-w{mw}", pool(max_workers=mw),
             [NEW, sub("a", "ok", 1), sub("d", "die"), sub("c", "ok", 3), WAIT, shutdown(True)])


def big_result(mw=1, n=3000, cap=1024):
    return P(f"big-w{mw}", pool(max_workers=mw, pipe_cap=cap),
             [NEW, sub("a", "big", n), sub("b", "ok", 2), WAIT, shutdown(True)])


def big_and_small(mw=2, n=3000, cap=1024, small=3):
    """One result larger than the result pipe (sent in several chunks) while other workers
    send small results."""
    ops = [NEW, sub("big", "big", n)] + [sub(f"s{i}", "ok", i) for i in range(small)]
    ops += [WAIT, ["probe"], shutdown(True)]
    return P(f"big+small-w{mw}-n{n}-cap{cap}", pool(max_workers=mw, pipe_cap=cap), ops)


def reusable_full_queue():
    """cpu_count=1 -> 3 call-queue slots; 3 workers -> 3 sentinels at shutdown."""
    return P("reuse-fullq", pool("reusable", 3, None, cpu_count=1),
             [NEW, sub("a", "ok", 1), sub("b", "ok", 2), sub("c", "ok", 3), sub("d", "ok", 4),
              WAIT, shutdown(True)])


def reusable_resize(old=2, new=3, timeout=None, inflight=0):
    ops = [NEW, sub("a", "ok", 1), ["result", "a"]]
    for i in range(inflight):
        ops.append(sub(f"f{i}", "ok", i))
    ops += [["reuse", dict(max_workers=new)], sub("b", "ok", 2), WAIT, shutdown(True)]
    return P(f"resize-{old}to{new}-t{timeout}-f{inflight}", pool("reusable", old, timeout), ops)


def reusable_replace(timeout=None, kill=False):
    return P(f"replace-t{timeout}-k{kill}", pool("reusable", 2, timeout),
             [NEW, sub("a", "ok", 1), ["result", "a"],
              ["reuse", dict(max_workers=2, reuse=False, kill_workers=kill)],
              sub("b", "ok", 2), WAIT, shutdown(True)])


def two_submitters(mw=2, timeout=None):
    return P(f"two-submitters-w{mw}-t{timeout}", pool(max_workers=mw, timeout=timeout),
             [NEW, sub("a", "ok", 1), ["result", "a"]],
             [sub("b", "ok", 2), ["result", "b"]])


def exit_live(mw=2, timeout=None):
    return P(f"exit-live-w{mw}-t{timeout}", pool(max_workers=mw, timeout=timeout),
             [NEW, sub("a", "ok", 1), sub("b", "ok", 2)])


def cancel_prog(mw=1):
    return P(f"cancel-w{mw}", pool(max_workers=mw),
             [NEW, sub("a", "ok", 1), sub("b", "ok", 2), sub("c", "ok", 3), sub("d", "ok", 4),
              sub("e", "ok", 5), ["cancel", "e"], ["cancel", "d"], WAIT, shutdown(True)])


def callback_raises_exc(exc, mw=1, on="ok"):
    """A done-callback raising `exc` (classes outside Exception included), registered on a
    normal task (run by the manager thread) or on an unsendable one (run by the feeder)."""
    return P(f"callback-raises-{exc}-on-{on}-w{mw}", pool(max_workers=mw),
             [NEW, sub("a", on, 1) if on == "ok" else sub("a", on), ["callback", "a", "raise", exc],
              sub("b", "ok", 2), sub("c", "raise"), WAIT, sub("d", "ok", 4), ["result", "d"],
              ["probe"], shutdown(True)])


def callback_raises(mw=1):
    return P(f"callback-raises-w{mw}", pool(max_workers=mw),
             [NEW, sub("a", "ok", 1), ["callback", "a", "raise"], sub("b", "ok", 2), WAIT,
              shutdown(True)])


def kill_workers_shutdown(mw=2, gate=True):
    ops = [NEW, sub("a", "ok", 1), ["result", "a"], sub("g", "gate" if gate else "ok"),
           sub("h", "ok", 2), sub("i", "ok", 3), ["shutdown", True, True], WAIT]
    return P(f"killworkers-w{mw}-g{gate}", pool(max_workers=mw), ops)


# ---- more programs (C02-C20) ---------------------------------------------------------------
def kill_mix(mw=2, timeout=None, init=None, tail_submit=True):
    ops = [NEW, sub("a", "ok", 1), sub("b", "ok", 2), sub("c", "ok", 3), WAIT]
    if tail_submit:
        ops.append(["submit_expect", "z"])
    ops.append(shutdown(True))
    return P(f"killmix-w{mw}-t{timeout}-i{init}", pool(max_workers=mw, timeout=timeout, init=init), ops)


def kill_gate(mw=2):
    """One task blocked in its body (released by a second thread), others queued."""
    return P(f"killgate-w{mw}", pool(max_workers=mw),
             [NEW, sub("g", "gate"), sub("a", "ok", 1), sub("b", "ok", 2), WAIT, shutdown(True)],
             [["release", "g"]])


def die_code(code, mw=2):
    """a worker ends by signal -code / exit status code while it holds a task"""
    return P(f"die-code{code}-w{mw}", pool(max_workers=mw),
             [NEW, sub("a", "ok", 1), ["result", "a"], sub("d", "die", code), sub("c", "ok", 3),
              WAIT, ["submit_expect", "z"], shutdown(True)])


def die_unwatched(code, mw=2):
    """A worker ends abruptly while the caller is not waiting on that task; the caller then shuts
    the executor down: the lifecycle is over from its point of view."""
    return P(f"die-unwatched-code{code}-w{mw}", pool(max_workers=mw),
             [NEW, sub("a", "ok", 1), ["result", "a"], sub("d", "die", code), ["sleep", 0.2],
              shutdown(True)])


def die_then_submit(mw=2):
    return P(f"die-submit-w{mw}", pool(max_workers=mw),
             [NEW, sub("a", "ok", 1), ["result", "a"], sub("d", "die"), sub("c", "ok", 3), WAIT,
              ["submit_expect", "z"], shutdown(True)])


def map_prog(chunksize, lens, mw=2, timeout=None, kind="plain", shape="list", fn=None):
    """shape: how the iterables are given - lists, one-shot iterators, the SAME iterator passed
    len(lens) times (the grouper idiom), or generators whose values depend on how far the
    others have been consumed."""
    tag = "" if fn is None else "-" + fn
    fn = fn or {1: "sq", 2: "add", 3: "add3"}[len(lens)]
    return P(f"map-c{chunksize}-l{'x'.join(map(str, lens))}-w{mw}-t{timeout}"
             + ("" if shape == "list" else "-" + shape) + tag,
             pool(kind, mw, timeout),
             [NEW, ["map", "m", fn, chunksize, list(lens), shape], shutdown(True)])


def map_partial(chunksize, lens, take, mw=2):
    fn = {1: "sq", 2: "add", 3: "add3"}[len(lens)]
    return P(f"map-partial-c{chunksize}-l{'x'.join(map(str, lens))}-take{take}-w{mw}",
             pool("plain", mw, None),
             [NEW, ["map_partial", "m", fn, chunksize, list(lens), take], sub("z", "ok", 1),
              ["result", "z"], shutdown(True)])


def cancel_two_threads(mw=1):
    return P(f"cancel2-w{mw}", pool(max_workers=mw),
             [NEW, sub("a", "ok", 1), sub("b", "ok", 2), sub("c", "ok", 3), sub("d", "ok", 4),
              sub("e", "ok", 5), sub("f", "ok", 6), WAIT, shutdown(True)],
             [["cancel", "f"], ["cancel", "e"], ["cancel", "c"]])


def resize_with_map(old=1, new=2, timeout=0.05):
    return P(f"resize-map-{old}to{new}-t{timeout}", pool("reusable", old, timeout),
             [NEW, sub("a", "ok", 1), sub("b", "ok", 2), ["reuse", dict(max_workers=new)],
              ["map", "m", "sq", 2, [3]], WAIT, shutdown(True)])


def mixed_failures(kinds, mw=1, timeout=None):
    ops = [NEW]
    for i, k in enumerate(kinds):
        ops.append(sub(f"k{i}", k, *( [i] if k == "ok" else [])))
    ops += [WAIT, sub("z", "ok", 9), ["result", "z"], ["probe"], shutdown(True)]
    return P(f"mixed-{'-'.join(kinds)}-w{mw}", pool(max_workers=mw, timeout=timeout), ops)


def feeder_vs_break(mw=2):
    """F7 shape: a task whose argument fails to pickle slowly (feeder error path) while a
    worker dies (terminate_broken)."""
    return P(f"feeder-vs-break-w{mw}", pool(max_workers=mw),
             [NEW, sub("a", "ok", 1), ["result", "a"], sub("d", "die"),
              sub("s", "slow_bad_arg", 0.001), sub("c", "ok", 3), WAIT, shutdown(True)])


def shutdown_form(k, form, mw=2, timeout=None, kind="plain", cpu=2):
    ops = [NEW] + [sub(f"t{i}", "ok", i) for i in range(k)]
    if form == "wait":
        ops += [shutdown(True), ["submit_expect", "z"]]
    elif form == "nowait":
        ops += [shutdown(False), ["submit_expect", "z"], WAIT]
    elif form == "with":
        ops += [["with_exit"], ["submit_expect", "z"]]
    elif form == "del":
        ops += [["del"], WAIT]
    elif form == "exit":
        pass
    return P(f"shut-{form}-k{k}-w{mw}-t{timeout}-{kind}{cpu}",
             pool(kind, mw, timeout, cpu_count=cpu), ops)


def shutdown_late_error(mw=1):
    return P(f"shut-late-pickle-error-w{mw}", pool(max_workers=mw),
             [NEW, sub("a", "ok", 1), sub("x", "slow_bad_arg", 0.001), sub("b", "ok", 2),
              shutdown(True)])


def forced(mw=2, reusable=False, queued=3):
    ops = [NEW, sub("a", "ok", 1), ["result", "a"], sub("g", "gate")]
    ops += [sub(f"q{i}", "ok", i) for i in range(queued)]
    if reusable:
        ops += [["reuse", dict(max_workers=mw, kill_workers=True, reuse=False)],
                sub("n", "ok", 5), ["result", "n"], shutdown(True)]
    else:
        ops += [["shutdown", True, True], ["submit_expect", "z"]]
    return P(f"forced-w{mw}-r{reusable}-q{queued}", pool("reusable" if reusable else "plain", mw),
             ops)


def late_initializer_failure(grow_to=3):
    """The initializer works in the two initial workers and fails in the worker added by a
    resize: the pool has to be flagged broken by itself (nothing is submitted meanwhile)."""
    return P(f"late-init-failure-2to{grow_to}", pool("reusable", 2, None, init="fail3"),
             [NEW, sub("a", "ok", 1), sub("b", "ok", 2), WAIT,
              ["reuse", dict(max_workers=grow_to)], ["settle"], ["probe"], shutdown(True)])


def crash_then_reuse(mw=2, pending=3):
    """A worker takes itself down while several tasks are pending; as soon as one of its futures
    tells the caller that the pool is broken, the caller asks for the executor again."""
    ops = [NEW, sub("a", "ok", 1), ["result", "a"], sub("d", "die")]
    ops += [sub(f"p{i}", "ok", i) for i in range(pending)]
    ops += [["callback", "p0", "slow", 0.3], ["result", f"p{pending - 1}"],
            ["reuse", dict(max_workers=mw)], sub("n", "ok", 9), ["result", "n"], shutdown(True)]
    return P(f"crash-then-reuse-w{mw}-p{pending}", pool("reusable", mw), ops)


def forced_nowait_prompt(mw=2, queued=1):
    """shutdown(wait=False, kill_workers=True) while every worker is busy for good and the
    caller keeps its reference: nothing else will ever wake the manager, yet the futures must
    fail and the workers be gone by the time everything has come to rest."""
    ops = [NEW] + [sub(f"g{i}", "gate") for i in range(mw)] + [sub(f"q{i}", "ok", i) for i in range(queued)]
    ops += [["expect_inside", mw], ["shutdown", False, True], ["settle"], ["expect_resolved"]]
    return P(f"forced-nowait-prompt-w{mw}-q{queued}", pool(max_workers=mw), ops)


def forced_then_graceful(mw=2, second_wait=True):
    """shutdown(wait=False, kill_workers=True), then a plain shutdown(wait=...) of the same
    executor: the forced request must not be downgraded by the later graceful call."""
    return P(f"forced-then-graceful-w{mw}-{second_wait}", pool(max_workers=mw),
             [NEW, sub("g", "gate"), sub("q", "ok", 1), ["shutdown", False, True],
              ["shutdown", second_wait, False]])


def forced_with_callbacks(mw=1, reusable=False):
    """Forced shutdown while pending futures carry done-callbacks that re-enter the executor
    (retry by submit, shutdown)."""
    ops = [NEW, sub("g", "gate"), sub("q0", "ok", 1), sub("q1", "ok", 2), sub("q2", "ok", 3),
           ["callback", "g", "resubmit"], ["callback", "q0", "resubmit"],
           ["callback", "q1", "shutdown"], ["callback", "q2", "ok"]]
    if reusable:
        ops += [["reuse", dict(max_workers=mw, kill_workers=True, reuse=False)],
                sub("n", "ok", 5), ["result", "n"], shutdown(True)]
    else:
        ops += [["shutdown", True, True]]
    return P(f"forced-callbacks-w{mw}-r{reusable}", pool("reusable" if reusable else "plain", mw), ops)


def reuse_in_callback(old=2, new=3, kind="grow"):
    """A done-callback (manager thread) calls get_reusable_executor with another size."""
    return P(f"cb-reuse-{old}to{new}", pool("reusable", old),
             [NEW, sub("a", "ok", 1), ["callback", "a", "reuse", dict(max_workers=new)],
              sub("b", "ok", 2), WAIT, ["sleep", 0.01], sub("c", "ok", 3), ["result", "c"],
              shutdown(True)])


def resize_vs_callback_submit(old=1, new=3):
    """One thread resizes while a running job's done-callback submits again."""
    return P(f"resize-vs-cb-submit-{old}to{new}", pool("reusable", old),
             [NEW, sub("g", "gate"), ["callback", "g", "resubmit"], ["sleep", 0.01],
              ["release", "g"], WAIT, shutdown(True)],
             [["reuse", dict(max_workers=new)], sub("t", "ok", 7), ["result", "t"]])


def interrupted_resize(old=3, new=1):
    """With warnings as errors the resize of a busy executor is interrupted (UserWarning);
    asked again once the job is done it must really happen."""
    keys = [f"g{i}" for i in range(old)]
    ops = [NEW, sub("busy", "gate"), ["expect_inside", 1],
           ["reuse", dict(max_workers=new)],        # raises: resize with running jobs
           ["release", "busy"], ["result", "busy"],
           ["reuse", dict(max_workers=new)]]
    ops += [sub(k, "gate") for k in keys] + [["expect_inside", new]]
    ops += [["release", k] for k in keys] + [WAIT, shutdown(True)]
    return P(f"interrupted-resize-{old}to{new}", pool("reusable", old, None, werror=True), ops)


def shutdown_in_callback(kind="shutdown", mw=2, queued=2):
    """A done-callback shuts the executor down (it runs in the manager thread)."""
    ops = [NEW, sub("a", "ok", 1), ["callback", "a", kind]]
    ops += [sub(f"q{i}", "ok", i) for i in range(queued)] + [WAIT, shutdown(True)]
    return P(f"cb-{kind}-w{mw}-q{queued}", pool(max_workers=mw), ops)


def with_body_raises(k=2, mw=2):
    ops = [NEW] + [sub(f"t{i}", "ok", i) for i in range(k)] + [["with_exit", "raise"],
                                                              ["submit_expect", "z"]]
    return P(f"with-raise-k{k}-w{mw}", pool(max_workers=mw), ops)


def nowait_then_wait(k=3, mw=2, timeout=None, form="shutdown"):
    """shutdown(wait=False) with work pending, later a waited shutdown (explicit, or the exit of
    a with block) by the same thread: the second one has to wait for the drain."""
    ops = [NEW] + [sub(f"t{i}", "ok", i) for i in range(k)] + [["shutdown", False, False]]
    ops += [["with_exit"]] if form == "with" else [["shutdown", True, False]]
    ops += [["submit_expect", "z"]]
    return P(f"nowait-then-wait-k{k}-w{mw}-t{timeout}-{form}", pool(max_workers=mw, timeout=timeout), ops)


def shutdown_twice(mw=2, second_wait=True):
    """Two threads shut the same executor down (both graceful)."""
    return P(f"shutdown-twice-w{mw}-{second_wait}", pool(max_workers=mw),
             [NEW, sub("a", "ok", 1), sub("b", "ok", 2), ["shutdown", True, False]],
             [["shutdown", second_wait, False]])


def late_callbacks(mw=1):
    return P(f"late-callbacks-w{mw}", pool(max_workers=mw),
             [NEW, sub("a", "ok", 1), ["callback", "a", "add_callback"], ["result", "a"],
              ["late_callback", "a"], sub("b", "raise"), WAIT, ["late_callback", "b"],
              shutdown(True)])


def forced_descendants(mw=2, reusable=False, busy=False):
    """Forced shutdown of workers that own long-lived descendants (subprocesses, nested
    workers) left by finished tasks; with busy=False no future is unfinished at that time."""
    ops = [NEW, sub("a", "spawn_child", 1), sub("b", "spawn_child", 2), ["result", "a"],
           ["result", "b"]]
    if busy:
        ops += [sub("g", "gate"), sub("q", "ok", 1)]
    if reusable:
        ops += [["reuse", dict(max_workers=mw, kill_workers=True, reuse=False)],
                sub("n", "ok", 5), ["result", "n"], shutdown(True)]
    else:
        ops += [["shutdown", True, True]]
    return P(f"forced-desc-w{mw}-r{reusable}-b{busy}", pool("reusable" if reusable else "plain", mw),
             ops)


def forced_two_gates(mw=2):
    return P(f"forced-2gates-w{mw}", pool(max_workers=mw),
             [NEW, sub("g1", "gate"), sub("g2", "gate"), sub("q", "ok", 1),
              ["shutdown", True, True]])


def idle_then_submit(mw=2, timeout=0.05, init=None):
    return P(f"idle-submit-w{mw}-i{init}", pool(max_workers=mw, timeout=timeout, init=init),
             [NEW, sub("a", "ok", 1), ["result", "a"], ["sleep", 0.2], sub("b", "ok", 2),
              sub("c", "ok", 3), WAIT, shutdown(True)])


def bursts(mw=2, timeout=0.05):
    return P(f"bursts-w{mw}", pool(max_workers=mw, timeout=timeout),
             [NEW, sub("a", "ok", 1), sub("b", "ok", 2), WAIT, ["sleep", 0.2], sub("c", "ok", 3),
              WAIT, ["sleep", 0.2], sub("d", "ok", 4), WAIT, shutdown(True)])


def timeout_resize(old=2, new=1, timeout=0.05):
    return P(f"timeout-resize-{old}to{new}", pool("reusable", old, timeout),
             [NEW, sub("a", "ok", 1), ["result", "a"], ["reuse", dict(max_workers=new)],
              sub("b", "ok", 2), sub("c", "ok", 3), WAIT, shutdown(True)])


def grow_then_rest(old=2, new=4, timeout=0.05):
    """Growing resize of an idle pool with finite idle timeout, then a pause much shorter than
    the timeout: for idle timers that fire while the new workers are being spawned, the pool
    must then still have the requested number of workers, the previous ones among them."""
    return P(f"grow-then-rest-{old}to{new}", pool("reusable", old, timeout),
             [NEW] + [sub(f"a{i}", "ok", i) for i in range(old)] + [WAIT,
              ["reuse", dict(max_workers=new)], ["sleep", timeout / 5], ["probe"], shutdown(True)])


def grow_slow_start(old=1, new=2, timeout=0.05, slow=1.0):
    """Growing resize of an idle pool with a finite idle timeout on a machine where
    Process.start() returns late (much later than the idle timeout): the fresh worker is up,
    idle and past its timeout while the parent has not yet recorded it; then ordinary work."""
    return P(f"grow-slow-start-{old}to{new}", pool("reusable", old, timeout, slow_start=slow),
             [NEW] + [sub(f"a{i}", "ok", i) for i in range(old)] + [WAIT,
              ["reuse", dict(max_workers=new)], sub("b", "ok", 7), ["result", "b"], ["probe"], shutdown(True)])


def saturate(mw=2, extra=1, timeout=None, kind="plain", cpu=2):
    keys = [f"g{i}" for i in range(mw + extra)]
    ops = [NEW] + [sub(k, "gate") for k in keys] + [["expect_inside", mw]]
    ops += [["release", k] for k in keys] + [WAIT, shutdown(True)]
    return P(f"saturate-w{mw}+{extra}-t{timeout}-{kind}" + (f"-cpu{cpu}" if cpu != 2 else ""),
             pool(kind, mw, timeout, cpu_count=cpu), ops)


def idle_exit_during_submit(mw=2, timeout=0.05):
    """One worker busy, the other idle and about to time out; the last submit of the history
    brings a second long task: whenever the idle worker leaves relative to that submit, the
    pool must end up with both long tasks running."""
    return P(f"idle-exit-during-submit-w{mw}", pool(max_workers=mw, timeout=timeout),
             [NEW, sub("g0", "gate"), sub("a", "ok", 1), ["result", "a"], ["sleep", 0.01],
              sub("g1", "gate"), ["expect_inside", 2], ["release", "g0"], ["release", "g1"], WAIT, shutdown(True)])


def saturate_after_idle(mw=2, timeout=0.05):
    keys = [f"g{i}" for i in range(mw)]
    ops = [NEW, sub("a", "ok", 1), ["result", "a"], ["sleep", 0.2]]
    ops += [sub(k, "gate") for k in keys] + [["expect_inside", mw]]
    ops += [["release", k] for k in keys] + [WAIT, shutdown(True)]
    return P(f"saturate-idle-w{mw}", pool(max_workers=mw, timeout=timeout), ops)


def saturate_resize(old=1, new=2, timeout=None):
    keys = [f"g{i}" for i in range(max(old, new) + 1)]
    ops = [NEW, sub("a", "ok", 1), ["result", "a"], ["reuse", dict(max_workers=new)]]
    ops += [sub(k, "gate") for k in keys] + [["expect_inside", new]]
    ops += [["release", k] for k in keys] + [WAIT, shutdown(True)]
    return P(f"saturate-resize-{old}to{new}-t{timeout}", pool("reusable", old, timeout), ops)


def resize_inflight(old, new, timeout=None, inflight=1):
    """Resize while `inflight` tasks are pending; a gate task is released by a second thread."""
    ops = [NEW, sub("a", "ok", 1), ["result", "a"], sub("g", "gate")]
    ops += [sub(f"f{i}", "ok", i) for i in range(inflight)]
    ops += [["reuse", dict(max_workers=new)], sub("b", "ok", 2), WAIT, shutdown(True)]
    return P(f"resize-inflight-{old}to{new}-t{timeout}-f{inflight}", pool("reusable", old, timeout),
             ops, [["release", "g"]])


def lifecycle_twice(mw=2, timeout=None):
    return P(f"lifecycle2-w{mw}-t{timeout}", pool(max_workers=mw, timeout=timeout),
             [NEW, sub("a", "ok", 1), WAIT, shutdown(True), NEW, sub("b", "ok", 2), WAIT,
              shutdown(True)])


def submit_vs_shutdown(mw=1, wait=True):
    """A second thread submits while the first one shuts the executor down: the submit either
    raises ShutdownExecutorError or its task runs."""
    return P(f"submit-vs-shutdown-w{mw}-{wait}", pool(max_workers=mw),
             [NEW, sub("a", "ok", 1), shutdown(wait)],
             [["submit_expect", "b"]])


def forced_after_nowait(mw=2, reusable=False):
    """Forced shutdown arriving on an executor already flagged as shutting down."""
    ops = [NEW, sub("a", "ok", 1), ["result", "a"], sub("g", "gate"), sub("q", "ok", 2),
           ["shutdown", False, False]]
    if reusable:
        ops += [["reuse", dict(max_workers=mw, kill_workers=True)], sub("n", "ok", 5),
                ["result", "n"], shutdown(True)]
    else:
        ops += [["shutdown", True, True]]
    return P(f"forced-after-nowait-w{mw}-r{reusable}", pool("reusable" if reusable else "plain", mw),
             ops)


def forced_escalation(mw=2):
    """One thread blocked in shutdown(wait=True), another escalates with kill_workers=True."""
    return P(f"forced-escalation-w{mw}", pool(max_workers=mw),
             [NEW, sub("g", "gate"), sub("q", "ok", 2), ["shutdown", True, False]],
             [["sleep", 0.01], ["shutdown", True, True]])


def saturate_partial_drain(mw=3, timeout=0.05):
    """One long task keeps a worker, the others idle out; later long tasks must bring the
    pool back to max_workers parallel bodies."""
    keys = [f"g{i}" for i in range(mw)]
    ops = [NEW, sub(keys[0], "gate"), ["sleep", 0.3]]
    ops += [sub(k, "gate") for k in keys[1:]] + [["expect_inside", mw]]
    ops += [["release", k] for k in keys] + [WAIT, shutdown(True)]
    return P(f"saturate-partial-drain-w{mw}", pool(max_workers=mw, timeout=timeout), ops)


def memory_leak_respawn(mw=1, init=None, form="await"):
    """The worker's memory-leak protection makes it leave after a task (psutil reports growth
    more than one second after the reference measurement); queued work needs a re-spawn."""
    ops = [NEW, sub("a", "ok", 1), ["result", "a"], ["sleep", 1.5], sub("l", "leak"),
           sub("b", "ok", 2), sub("c", "ok", 3)]
    if form == "await":
        ops += [WAIT, shutdown(True)]
    elif form == "nowait":
        ops += [shutdown(False), WAIT]
    return P(f"memleak-w{mw}-i{init}-{form}", pool(max_workers=mw, timeout=None, init=init), ops)


def respawn_race(mw=2, timeout=0.05):
    """A worker idles out while another is busy; a submit lands while the manager handles the
    exit: both may top the pool up (the manager's re-spawn path vs submit)."""
    return P(f"respawn-race-w{mw}", pool(max_workers=mw, timeout=timeout),
             [NEW, sub("g", "gate"), ["sleep", 0.2], sub("a", "ok", 1), sub("b", "ok", 2),
              ["release", "g"], WAIT, shutdown(True)])


def resubmit_from_callback(kind="bad_arg", mw=1):
    """A done-callback that re-enters the executor (retry on failure / follow-up on success)."""
    return P(f"resubmit-cb-{kind}-w{mw}", pool(max_workers=mw),
             [NEW, sub("x", kind), ["callback", "x", "resubmit"], sub("y", "ok", 2), WAIT,
              ["probe"], shutdown(True)])


def cancel_run(ncancel=6, mw=1):
    """A long run of consecutive cancelled backlog futures followed by a live one."""
    ops = [NEW] + [sub(f"r{i}", "ok", i) for i in range(4)]
    ops += [sub(f"x{i}", "ok", i) for i in range(ncancel)] + [sub("h", "ok", 9)]
    ops += [["cancel", f"x{i}"] for i in range(ncancel)] + [WAIT, shutdown(True)]
    return P(f"cancel-run{ncancel}-w{mw}", pool(max_workers=mw), ops)


def cancel_run_then_resize(ncancel=8, old=1, new=2, cpu=1):
    """Many cancelled backlog futures (more than the wake-ups still to come), then a request
    for another size: the resize has to see the pending work drain."""
    ops = [NEW] + [sub(f"r{i}", "ok", i) for i in range(3)]
    ops += [sub(f"x{i}", "ok", i) for i in range(ncancel)]
    ops += [["cancel", f"x{i}"] for i in range(ncancel)]
    ops += [["reuse", dict(max_workers=new)], sub("h", "ok", 9), WAIT, shutdown(True)]
    return P(f"cancel-run{ncancel}-resize-{old}to{new}", pool("reusable", old, None, cpu_count=cpu), ops)


def busy_manager_idle_worker(mw=2, timeout=0.05, cb_sleep=0.3):
    """One worker holds a long task, the other idles out while the manager thread is busy in a
    slow done-callback (a worker death in that window is seen only when the manager goes back
    to waiting)."""
    return P(f"busy-manager-idle-worker-w{mw}", pool(max_workers=mw, timeout=timeout),
             [NEW, sub("g", "gate"), sub("a", "ok", 1), ["callback", "a", "slow", cb_sleep],
              ["result", "a"], ["sleep", 0.5], ["release", "g"], WAIT, ["submit_expect", "z"],
              shutdown(True)])


def with_werror(prog):
    """The same program in an interpreter that turns warnings into errors (-W error)."""
    p = dict(prog)
    p["pool"] = dict(prog["pool"], werror=True)
    p["name"] = prog["name"] + "-werror"
    return p


def idle_then_die(mw=1, timeout=0.05):
    """All workers idle out; the next task is re-spawned for and takes its worker down."""
    return P(f"idle-then-die-w{mw}", pool(max_workers=mw, timeout=timeout),
             [NEW, sub("a", "ok", 1), ["result", "a"], ["sleep", 0.2], sub("d", "die"), WAIT,
              ["submit_expect", "z"], shutdown(True)])


def submit_cancel_shutdown(mw=1, wait=True):
    """F18 shape: a future cancelled before the manager dequeued it is the only pending item."""
    return P(f"submit-cancel-shutdown-w{mw}-{wait}", pool(max_workers=mw),
             [NEW, sub("a", "ok", 1), ["result", "a"], sub("b", "ok", 2), ["cancel", "b"],
              shutdown(wait)] + ([] if wait else [WAIT]))


def forced_full_pipe(mw=1, cap=1024, n=3, size=700, broken=False):
    """Forced shutdown (or a crash) while the feeder thread is blocked on a full call-queue
    pipe: nobody will ever read it again."""
    ops = [NEW, sub("g", "die" if broken else "gate")] + [sub(f"q{i}", "big_arg", size) for i in range(n)]
    if broken:
        ops += [WAIT, shutdown(True)]
    else:
        ops += [["shutdown", True, True]]
    return P(f"forced-full-pipe-w{mw}-b{broken}", pool(max_workers=mw, pipe_cap=cap), ops)


def unsendable_one_by_one(n=2, mw=1):
    """Tasks that fail to pickle, each awaited before the next is submitted (every wake-up of the
    manager has a single cause and nothing else in flight), then a healthy task."""
    ops = [NEW]
    for i in range(n):
        ops += [sub(f"x{i}", "bad_arg"), ["result", f"x{i}"]]
    ops += [sub("z", "ok", 9), ["result", "z"], ["probe"], shutdown(True)]
    return P(f"unsendable-one-by-one{n}-w{mw}", pool(max_workers=mw), ops)


def cancel_then_work(mw=1):
    """A future cancelled before dispatch (its wake-up has no inter-process follow-up), the
    running task awaited, then ordinary work."""
    return P(f"cancel-then-work-w{mw}", pool(max_workers=mw),
             [NEW, sub("g", "gate")] + [sub(f"q{i}", "ok", i) for i in range(2 * mw + 2)]
             + [["cancel", f"q{2 * mw + 1}"], ["release", "g"], WAIT, sub("z", "ok", 9), ["result", "z"],
                ["probe"], shutdown(True)])


def reuse_true_after_drain(mw=3, timeout=0.05):
    """'Give me the same executor, unchanged' (reuse=True, no max_workers) asked while some
    workers may have left on idle timeout: the executor still runs mw tasks at once."""
    keys = [f"g{i}" for i in range(mw)]
    ops = [NEW] + [sub(f"a{i}", "ok", i) for i in range(mw)] + [WAIT, ["reuse", dict(reuse=True)]]
    ops += [sub(k, "gate") for k in keys] + [["expect_inside", mw]]
    ops += [["release", k] for k in keys] + [WAIT, shutdown(True)]
    return P(f"reuse-true-after-drain-w{mw}-t{timeout}", pool("reusable", mw, timeout), ops)


def forced_while_worker_leaves(mw=2, timeout=0.05):
    """One worker busy, the other leaving on idle timeout (announced, released by the manager,
    not yet gone) when the forced shutdown arrives."""
    return P(f"forced-while-worker-leaves-w{mw}-t{timeout}", pool("plain", mw, timeout),
             [NEW] + [sub(f"a{i}", "ok", i) for i in range(mw)] + [WAIT, sub("g", "gate"), ["sleep", 4 * timeout],
              ["shutdown", True, True], ["submit_expect", "z"]])
