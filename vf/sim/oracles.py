"""Shared oracle pieces for engine-S checks.  An oracle maps a Record to
(list of violations, outcome class); a violation is {"signature": str, "msg": str}."""
import re


def _role(name):
    return re.sub(r"#\d+", "", name)


def _lk(label):
    return label.split(":")[0]


def cause(rec):
    out = []
    for ev in rec.trace:
        if ev[0] == "K" or ev[0] == "ext-kill":
            site = "?"
            for (tname, tlabel, stack) in ev[2]:
                if tname == "main":
                    fn = stack[0] if stack else "-"
                    if fn.startswith("__") and len(stack) > 1:
                        fn = f"{stack[1]}.{fn}"
                    site = f"{fn}/{_lk(tlabel)}"
            out.append(f"K@{site}")
        elif ev[0] == "T":
            out.append(f"T@{_role(ev[1]).split(':')[-2] if ':' in ev[1] else ev[1]}"
                       f".{_role(ev[1]).split(':')[-1]}/{_lk(ev[2])}")
        elif ev[0] == "killed-by" and len(ev) > 3:
            # a worker killed by the library itself (kill_workers, terminate_broken) while it
            # holds the processes-management lock (between acquire(False) and release on its
            # idle-timeout path): part of the cause, like an external kill at that place
            for (tname, tlabel, stack) in ev[3]:
                if tname == "main" and stack and stack[0] == "_process_worker" \
                        and _lk(tlabel) == "sem.rel":
                    out.append("IK@_process_worker/sem.rel")
        elif ev[0] == "die":
            out.append("die")
    npre = sum(1 for (_, _, lab) in rec.devs if lab.startswith("run:"))
    if npre:
        out.append(f"P{npre}")
    return "+".join(sorted(out)) or "none"


def thread_desc(rec, full):
    base = full.split("~")[0]
    for (name, label, daemon, stack) in rec.blocked:
        if name.split("~")[0] == base:
            fn = stack[0] if stack else "-"
            if fn.startswith("__") and len(stack) > 1:
                fn = f"{stack[1]}.{fn}"
            return f"blocked:{fn}/{_lk(label)}"
    for (name, exc, msg, funcs) in rec.thread_errors:
        if name.split("~")[0] == base:
            return f"dead:{exc}@{funcs[-1] if funcs else '?'}"
    short = full.split(":")[-1]
    for (n, st, d) in rec.parent_threads:
        if n == short:
            return "done" if st == "done" else st
    return "none"


def exec_desc(rec):
    if not rec.execs:
        return "none"
    e = rec.execs[-1]
    return ",".join(["alive" if e["alive"] else "gone", "shut" if e["shutdown"] else "open",
                     e["broken"][0] if e["broken"] else "ok"]
                    + (["kw"] if e["kill_workers"] else [])
                    + (["latespawn"] if any(sp.get("after_break") for sp in rec.spawn_log) else []))


def user_desc(rec):
    out = []
    for (name, label, daemon, stack) in rec.blocked:
        if name.startswith("parent:") and (name == "parent:main" or "user#" in name):
            out.append(f"{stack[0] if stack else '-'}/{_lk(label)}")
    return ",".join(sorted(set(out))) or "-"


def termination(rec, allow_hold=True):
    """C01-style verdict: the execution ran to the end of the simulated interpreter exit, every
    future is terminal, every API call returned, no parent-side thread died."""
    v = []
    mgr = thread_desc(rec, "parent:manager")
    feeder = thread_desc(rec, "parent:feeder")
    c = cause(rec)
    hung = rec.verdict in ("quiescent", "livelock", "horizon", "main-died")
    undone = sorted(k for k, f in rec.fut.items() if f[0] == "undone")
    not_ret = [(o["t"], o["op"][0]) for o in rec.ops if not o["returned"] and o.get("started", True)]
    if hung:
        kind = {"quiescent": "deadlock"}.get(rec.verdict, rec.verdict)
        spin = "|user=" + user_desc(rec)
        v.append(dict(signature=f"hang:{kind}|mgr={mgr}|feeder={feeder}{spin}|ex={exec_desc(rec)}"
                                f"|cause={c}",
                      msg=f"{kind}: blocked={rec.blocked} undone={undone} "
                          f"thread_errors={rec.thread_errors}"))
    else:
        deaths = [e for e in rec.thread_errors if e[0].startswith("parent:")]
        for e in deaths:
            v.append(dict(signature=f"thread-death:{e[0].split(':')[-1].split('~')[0]}:{e[1]}@"
                                    f"{e[3][-1] if e[3] else '?'}|cause={c}",
                          msg=f"thread {e[0]} died: {e[1]}: {e[2]} in {e[3]}; undone={undone}"))
        if undone and not deaths:
            v.append(dict(signature=f"future-pending-at-exit|mgr={mgr}|ex={exec_desc(rec)}"
                                    f"|cause={c}",
                          msg=f"futures {undone} never resolved although the interpreter "
                              f"exit completed; execs={rec.execs}"))
    cls = (rec.verdict, tuple(sorted((k, f[0]) for k, f in rec.fut.items())),
           tuple(e["broken"][0] if e["broken"] else None for e in rec.execs))
    return v, cls


def worker_deaths(rec):
    """Workers that ended other than by returning from their main function."""
    return [p for p in rec.procs if not p["alive"] and not p["clean"]]


def had_kill(rec):
    return any(ev[0] in ("K", "ext-kill", "die") for ev in rec.trace)
