"""Deviation-bounded exhaustive exploration of one driver program (stateless DFS over choice
prefixes), sharded over a pool of forked explorer processes.

Every non-default choice at a decision point costs 1 (P: run another enabled thread, T: fire a
short timed wait early, K: kill a simulated worker).  ``explore(prog, bound)`` runs *every*
execution whose cost is <= bound, and evaluates ``oracle(rec)`` on each."""
import collections
import importlib
import multiprocessing as mp
import os
import signal
import sys
import time
import traceback

from . import driver

EXEC_WATCHDOG_S = float(os.environ.get("VF_EXEC_WATCHDOG", "90"))
RECYCLE = 1500
STATE_CAP = 4_000_000


def children(prefix, alts_log, kinds_allowed=None):
    start = prefix[-1][0] + 1 if prefix else 0
    out = []
    for i in range(start, len(alts_log)):
        labels = alts_log[i]
        for a in range(1, len(labels)):
            out.append(prefix + ((i, a, labels[a]),))
    return out


def _oracle(name):
    modname, _, fn = name.partition(":")
    return getattr(importlib.import_module(modname), fn or "oracle")


class Summary:
    def __init__(self):
        self.executions = 0
        self.decisions = 0
        self.by_depth = collections.Counter()
        self.dev_kinds = collections.Counter()
        self.verdicts = collections.Counter()
        self.classes = collections.Counter()
        self.states = set()
        self.transitions = set()
        self.states_capped = False
        self.violations = []      # dicts
        self.internal = []
        self.samples = []
        self.max_decisions = 0
        self.kill_sites = collections.Counter()

    def merge(self, o):
        self.executions += o.executions
        self.decisions += o.decisions
        self.by_depth.update(o.by_depth)
        self.dev_kinds.update(o.dev_kinds)
        self.verdicts.update(o.verdicts)
        self.classes.update(o.classes)
        self.kill_sites.update(o.kill_sites)
        if len(self.states) < STATE_CAP:
            self.states |= o.states
            self.transitions |= o.transitions
        else:
            self.states_capped = True
        self.violations.extend(o.violations)
        self.internal.extend(o.internal)
        self.max_decisions = max(self.max_decisions, o.max_decisions)
        if len(self.samples) < 6:
            self.samples.extend(o.samples[: 6 - len(self.samples)])


_cur = None


def run_one(prog, prefix, opts, oracle, summ, want_sample=False):
    if _cur is not None:
        _cur[2] = int(time.time())
    rec = driver.run_program(prog, prefix, kinds=opts.get("kinds", ("P", "T", "K")),
                             kill_code=opts.get("kill_code", -9),
                             monitors=opts.get("_monitors", ()),
                             kill_when=opts.get("kill_when"), starve=opts.get("starve"), p_scope=opts.get("p_scope"),
                             t_scope=opts.get("t_scope"), t_when=opts.get("t_when"),
                             p_when=opts.get("p_when"), t_cur=opts.get("t_cur"),
                             zero_when=opts.get("zero_when"), lines=opts.get("lines"), p_cur=opts.get("p_cur"),
                             horizon=opts.get("horizon", 50_000))
    summ.executions += 1
    summ.decisions += len(rec.alts_log)
    summ.max_decisions = max(summ.max_decisions, len(rec.alts_log))
    summ.by_depth[len(prefix)] += 1
    for (_, _, lab) in prefix:
        summ.dev_kinds[lab.split(":")[0]] += 1
    for ev in rec.trace:
        if ev[0] == "K":
            summ.kill_sites[(ev[1].split("#")[0],) + tuple((t[0], t[2][:1]) for t in ev[2])] += 1
    summ.verdicts[rec.verdict] += 1
    summ.states |= rec.states
    summ.transitions |= rec.transitions
    if rec.internal_error or rec.verdict in ("internal",):
        summ.internal.append(dict(prog=prog["name"], prefix=list(prefix),
                                  error=rec.internal_error or rec.verdict))
        return rec
    viols, cls = oracle(rec)
    summ.classes[cls] += 1
    for v in viols:
        v = dict(v)
        v.update(prog=prog, prefix=[list(p) for p in prefix], opts={
            k: x for k, x in opts.items() if not k.startswith("_")})
        v.setdefault("trace", render(rec))
        summ.violations.append(v)
    if want_sample:
        summ.samples.append(dict(program=prog["name"], choices=[list(p) for p in prefix],
                                 verdict=rec.verdict, decisions=len(rec.alts_log),
                                 futures={k: v[0] for k, v in rec.fut.items()},
                                 events=[list(map(str, e[:2])) for e in rec.trace][:6]))
    return rec


def render(rec, limit=60):
    out = [f"verdict={rec.verdict} now={rec.now:.4f} steps={rec.nsteps}"]
    out.append("deviations=" + "; ".join(f"@{i}:{lab}" for (i, a, lab) in rec.devs))
    out.append("events=" + "; ".join(map(str, rec.trace[:12])))
    out.append("thread_errors=" + "; ".join(map(str, rec.thread_errors)))
    out.append("blocked=" + "; ".join(map(str, rec.blocked)))
    out.append("futures=" + str({k: v[:2] for k, v in rec.fut.items()}))
    out.append("ops=" + str([(o["t"], o["op"][0], o["returned"]) for o in rec.ops]))
    out.append("execs=" + str(rec.execs))
    return "\n".join(out)[:6000]


def subtree(prog, prefix, bound, opts, oracle, summ, first=False):
    rec = run_one(prog, prefix, opts, oracle, summ, want_sample=first)
    if len(prefix) < bound and not rec.internal_error:
        for ch in children(prefix, rec.alts_log):
            subtree(prog, ch, bound, opts, oracle, summ)
    return rec


# ------------------------------------------------------------------------------------------
def _worker(taskq, resq, oracle_name, monitors_name, cur):
    global _cur
    _cur = cur
    signal.signal(signal.SIGINT, signal.SIG_IGN)
    oracle = _oracle(oracle_name)
    mons = _oracle(monitors_name) if monitors_name else ()
    done = 0
    while True:
        task = taskq.get()
        if task is None:
            break
        tid, prog, prefixes, bound, opts = task
        opts = dict(opts)
        opts["_monitors"] = mons
        summ = Summary()
        try:
            for k, p in enumerate(prefixes):
                cur[0] = tid
                cur[1] = k
                cur[2] = int(time.time())
                subtree(prog, tuple(tuple(x) for x in p), bound, opts, oracle, summ,
                        first=(k == 0))
        except BaseException:
            summ.internal.append(dict(prog=prog["name"], prefix=[list(x) for x in p],
                                      error=traceback.format_exc()[-2000:]))
        cur[2] = 0
        resq.put((tid, summ))
        done += summ.executions
        if done >= RECYCLE:
            break
    resq.put(("bye", os.getpid()))


class Pool:
    def __init__(self, oracle_name, monitors_name=None, nproc=None):
        self.ctx = mp.get_context("fork")
        self.nproc = nproc or int(os.environ.get("VF_NPROC", "0")) or max(1, (os.cpu_count() or 2) - 2)
        self.oracle_name = oracle_name
        self.monitors_name = monitors_name
        self.taskq = self.ctx.Queue()
        self.resq = self.ctx.Queue()
        self.workers = []
        for _ in range(self.nproc):
            self._spawn()

    def _spawn(self):
        cur = self.ctx.Array("q", 3, lock=False)
        p = self.ctx.Process(target=_worker, args=(self.taskq, self.resq, self.oracle_name,
                                                   self.monitors_name, cur), daemon=True)
        p.start()
        self.workers.append((p, cur))

    def run(self, tasks):
        """tasks: list of (prog, prefixes, bound, opts).  Returns merged Summary."""
        total = Summary()
        pending = {}
        for tid, t in enumerate(tasks):
            pending[tid] = t
            self.taskq.put((tid,) + tuple(t))
        while pending:
            try:
                msg = self.resq.get(timeout=2.0)
            except Exception:
                msg = None
            if msg is not None:
                if msg[0] == "bye":
                    self.workers = [(p, c) for (p, c) in self.workers if p.pid != msg[1]]
                    self._spawn()
                    continue
                tid, summ = msg
                if tid in pending:
                    del pending[tid]
                    total.merge(summ)
                continue
            now = int(time.time())
            for (p, cur) in list(self.workers):
                hung = cur[2] and now - cur[2] > EXEC_WATCHDOG_S
                dead = not p.is_alive()
                if hung or dead:
                    tid, k = cur[0], cur[1]
                    if hung:
                        try:
                            os.kill(p.pid, signal.SIGKILL)
                        except OSError:
                            pass
                    p.join(5)
                    self.workers.remove((p, cur))
                    self._spawn()
                    if cur[2] and tid in pending:
                        prog, prefixes, bound, opts = pending.pop(tid)
                        pf = prefixes[k] if k < len(prefixes) else None
                        s = Summary()
                        if hung:
                            s.violations.append(dict(
                                signature=("explorer-watchdog", prog["name"]),
                                msg=f"execution did not finish within {EXEC_WATCHDOG_S}s of "
                                    "real time (busy loop without kernel operation?)",
                                prog=prog, prefix=[list(x) for x in (pf or ())], opts=opts,
                                trace=""))
                        else:
                            s.internal.append(dict(prog=prog["name"], prefix=pf,
                                                   error=f"explorer process died "
                                                         f"(exit {p.exitcode})"))
                        total.merge(s)
                        rest = prefixes[k + 1:]
                        if rest:
                            ntid = max(list(pending) + [tid]) + 1000
                            pending[ntid] = (prog, rest, bound, opts)
                            self.taskq.put((ntid, prog, rest, bound, opts))
        return total

    def close(self):
        for _ in self.workers:
            self.taskq.put(None)
        t0 = time.time()
        for p, _ in self.workers:
            p.join(max(0.1, 5 - (time.time() - t0)))
            if p.is_alive():
                p.kill()
        self.workers = []


def explore(pool, prog, bound, opts, oracle_name, batch=24, time_limit=None):
    """All executions of ``prog`` with at most ``bound`` deviations.  With a time limit the
    first-level subtrees are dispatched in rounds and the exploration stops between rounds once
    the limit is passed: the summary then says how many of them were explored (partial)."""
    oracle = _oracle(oracle_name)
    summ = Summary()
    o = dict(opts)
    o["_monitors"] = _oracle(pool.monitors_name) if pool.monitors_name else ()
    root = run_one(prog, (), o, oracle, summ, want_sample=True)
    if bound >= 1 and not root.internal_error:
        level1 = children((), root.alts_log)
        tasks = []
        bsz = batch if bound == 1 else max(1, batch // 8)
        for i in range(0, len(level1), bsz):
            tasks.append((prog, [list(map(list, p)) for p in level1[i:i + bsz]], bound, opts))
        summ.subtrees_total = len(tasks)
        summ.subtrees_done = 0
        if time_limit is None:
            summ.merge(pool.run(tasks))
            summ.subtrees_done = len(tasks)
        else:
            t0 = time.time()
            rnd = max(4 * pool.nproc, 16)
            for i in range(0, len(tasks), rnd):
                if i and time.time() - t0 > time_limit:
                    break
                summ.merge(pool.run(tasks[i:i + rnd]))
                summ.subtrees_done = min(len(tasks), i + rnd)
    summ.root_decisions = len(root.alts_log)
    return summ
