"""C06 tree part: the real loky.backend.utils.kill_process_tree run inside the simulator on every
rooted process tree with <= N nodes, with and without psutil, under all schedules with one
deviation (a descendant dying between the listing and its kill included)."""
import itertools

from . import kernel as K
from . import shims, world as W
from .kernel import SimAbort, SimKilled


def rooted_trees(n):
    """All rooted trees with n nodes as parent arrays (parent[i] < i), up to sibling order."""
    seen = set()
    out = []

    def canon(par):
        kids = {i: [] for i in range(len(par))}
        for i, p in enumerate(par):
            if i:
                kids[p].append(i)

        def enc(v):
            return "(" + "".join(sorted(enc(c) for c in kids[v])) + ")"
        return enc(0)
    for par in itertools.product(*[range(i) for i in range(1, n)]):
        par = (None,) + par
        c = canon(par)
        if c not in seen:
            seen.add(c)
            out.append(par)
    return out


class Record:
    pass


def run_tree(par, use_psutil, prefix=(), kinds=("P", "K"), vanish=True, immune=()):
    leaves = {f"worker#t{i}" for i in range(len(par)) if i not in set(x for x in par if x is not None)}
    # injected deaths: only leaves (the death of an inner node orphans its children, which then
    # are no descendants of the worker any more)
    S = K.Sched(prefix, kinds=kinds, kill_filter=lambda s, p: p.label in leaves and len(par) > 1)
    K.S = S
    import gc
    gc.disable()
    w = W.build_world(S, psutil=use_psutil)
    S.world = w
    rec = Record()
    rec.order = []
    rec.result = None
    rec.vanish = vanish

    def main():
        utils = w.get("loky.backend.utils")
        parent = S.cur.proc
        procs = []
        for i, p in enumerate(par):
            pp = parent if p is None else procs[p]
            sp = S.new_proc(f"worker#t{i}", pp)
            if i in immune:
                # a process that ignores every catchable signal (only SIGKILL ends it)
                sp.info["ignored_signals"] = tuple(range(1, 65))
            gate = [False]

            def body(gate=gate):
                S.point(lambda: gate[0], label="tree.idle")
            S.spawn(body, "main", sp, is_main=True)
            procs.append(sp)
        root = procs[0]

        class Handle:
            pid = root.pid

            def join(self, timeout=None):
                S.point(lambda: not root.alive, timeout, label="waitpid")
                root.reaped = True

            def kill(self):
                S.kill_proc(root, S.cur, -9)
        orig_kill = S.kill_proc

        def logging_kill(proc, me, code=-9):
            import sys as _sys
            injected = _sys._getframe(1).f_code.co_name == "pick"
            if proc.alive:
                rec.order.append(proc.label)
            r = orig_kill(proc, me, code)
            if injected and rec.vanish:
                proc.reaped = True      # its own parent reaps it: psutil/pgrep no longer see it
            return r
        S.kill_proc = logging_kill
        try:
            utils.kill_process_tree(Handle())
            rec.result = "returned"
        except (SimAbort, SimKilled):
            raise
        except BaseException as e:
            rec.result = f"raised:{type(e).__name__}:{e}"
        rec.alive = [p.label for p in procs if p.alive]
        rec.root_reaped = root.reaped
        rec.held = True
    try:
        rec.verdict = S.run(main)
    finally:
        K.S = None
    rec.fault_killed = {ev[1] for ev in S.trace if ev[0] == "K"}
    rec.alts_log = S.alts_log
    rec.devs = S.devs
    rec.warnings = list(w.warnings)
    rec.internal_error = S.internal_error
    rec.states = S.states
    S.world = None
    w.teardown()
    gc.enable()
    return rec


def judge(par, use_psutil, rec):
    v = []
    tag = f"psutil={use_psutil}"
    if rec.internal_error:
        return [("internal", rec.internal_error)]
    if rec.result != "returned":
        v.append((f"C06:tree:{tag}:did-not-return", f"kill_process_tree ended as {rec.result} / "
                                                    f"{rec.verdict} on tree {par}"))
        return v
    if rec.alive:
        v.append((f"C06:tree:{tag}:survivors", f"processes {rec.alive} of tree {par} survived "
                                               f"kill_process_tree (kill order {rec.order})"))
    if not rec.root_reaped:
        v.append((f"C06:tree:{tag}:root-not-reaped", f"tree {par}"))
    # descendants are killed before their parent (otherwise they can be re-parented and escape)
    idx = {f"worker#t{i}": i for i in range(len(par))}
    pos = {lab: k for k, lab in enumerate(rec.order) if lab not in rec.fault_killed}
    for lab, i in idx.items():
        p = par[i]
        if p is not None and lab in pos and f"worker#t{p}" in pos and pos[f"worker#t{p}"] < pos[lab]:
            v.append((f"C06:tree:{tag}:parent-killed-first",
                      f"{lab} was killed after its parent worker#t{p} in tree {par}: {rec.order}"))
            break
    return v


def run_all(max_nodes=4, bound=1):
    n = 0
    viol = []
    states = set()
    samples = []
    for size in range(1, max_nodes + 1):
        for par in rooted_trees(size):
            for ps in (True, False):
                root = run_tree(par, ps)
                todo = [()]
                if bound >= 1:
                    todo += [((i, a, labels[a]),) for i, labels in enumerate(root.alts_log)
                             for a in range(1, len(labels))]
                for prefix in todo + [p + ("zombie",) for p in todo if p]:
                    vanish = not (prefix and prefix[-1] == "zombie")
                    if not vanish:
                        prefix = prefix[:-1]
                    rec = root if prefix == () else run_tree(par, ps, prefix, vanish=vanish)
                    n += 1
                    states |= rec.states
                    for sig, msg in judge(par, ps, rec):
                        viol.append((sig, msg, dict(tree=list(par), psutil=ps, prefix=[list(p) for p in prefix])))
                # signal dispositions: each single process of the tree (then all of them)
                # ignoring every catchable signal - only SIGKILL may be relied upon
                if size <= 4:
                    for immune in [(i,) for i in range(size)] + [tuple(range(size))]:
                        rec = run_tree(par, ps, (), immune=immune)
                        n += 1
                        states |= rec.states
                        for sig, msg in judge(par, ps, rec):
                            viol.append((sig + ":sigterm-immune", msg + f" [processes {immune} ignore "
                                         f"every catchable signal]",
                                         dict(tree=list(par), psutil=ps, prefix=[], immune=list(immune))))
                if len(samples) < 4 and size == max_nodes:
                    samples.append(dict(tree=list(par), psutil=ps, kill_order=root.order,
                                        schedules=len(todo)))
    return dict(executions=n, violations=viol, states=len(states), samples=samples)
