"""Shims for the syscall / C-extension layer, built on vf.sim.kernel.  Every operation is a
decision point; the operation itself is performed atomically once the caller is resumed."""
import collections
import os as _os
import pickle
import queue as _queue
import struct
import sys
import threading as _rt
import types

from . import kernel as K
from .kernel import TIMEOUT, SimAbort, SimKilled, InternalError, chk


# ------------------------------------------------------------------------------------------
# threading
class Lock:
    _n = 0

    def __init__(self):
        self.owner = None
        Lock._n += 1
        self._lid = f"L{Lock._n}"

    def acquire(self, blocking=True, timeout=-1):
        s = chk()
        if not blocking:
            s.point(label="lock.try")
            if self.owner is None:
                self.owner = s.cur
                return True
            return False
        to = None if timeout in (-1, None) else timeout
        r = s.point(lambda: self.owner is None, to, label="lock.acq")
        if r is TIMEOUT:
            return False
        self.owner = s.cur
        return True

    def release(self):
        s = chk()
        s.point(label="lock.rel")
        if self.owner is None:
            raise RuntimeError("release unlocked lock")
        self.owner = None
        s.point(label="lock.rel'")     # others may take the lock before the releaser goes on

    def locked(self):
        return self.owner is not None

    __enter__ = acquire

    def __exit__(self, *a):
        self.release()

    def _at_fork_reinit(self):
        self.owner = None


class RLock:
    def __init__(self):
        self.owner = None
        self.count = 0

    def acquire(self, blocking=True, timeout=-1):
        s = chk()
        if self.owner is s.cur:
            self.count += 1
            return True
        if not blocking:
            s.point(label="rlock.try")
            if self.owner is None:
                self.owner = s.cur
                self.count = 1
                return True
            return False
        to = None if timeout in (-1, None) else timeout
        r = s.point(lambda: self.owner is None, to, label="rlock.acq")
        if r is TIMEOUT:
            return False
        self.owner = s.cur
        self.count = 1
        return True

    def release(self):
        s = chk()
        if self.owner is not s.cur:
            raise RuntimeError("cannot release un-acquired lock")
        if self.count > 1:
            self.count -= 1
            return
        s.point(label="rlock.rel")
        self.count = 0
        self.owner = None

    __enter__ = acquire

    def __exit__(self, *a):
        self.release()

    def _is_owned(self):
        return self.owner is K.S.cur

    def _release_save(self):
        s = chk()
        s.point(label="rlock.rel")
        c = self.count
        self.count = 0
        self.owner = None
        return c

    def _acquire_restore(self, c):
        s = chk()
        s.point(lambda: self.owner is None, label="rlock.acq")
        self.owner = s.cur
        self.count = c

    def _at_fork_reinit(self):
        self.owner = None
        self.count = 0


class Condition:
    def __init__(self, lock=None):
        self._lock = lock if lock is not None else RLock()
        self.acquire = self._lock.acquire
        self.release = self._lock.release
        self.waiters = []

    def __enter__(self):
        return self._lock.__enter__()

    def __exit__(self, *a):
        return self._lock.__exit__(*a)

    def _is_owned(self):
        if hasattr(self._lock, "_is_owned"):
            return self._lock._is_owned()
        return self._lock.owner is K.S.cur

    def wait(self, timeout=None):
        s = chk()
        if not self._is_owned():
            raise RuntimeError("cannot wait on un-acquired lock")
        tok = [False]
        self.waiters.append(tok)
        if isinstance(self._lock, RLock):
            saved = self._lock._release_save()
        else:
            self._lock.release()
            saved = None
        try:
            r = K.S.point(lambda: tok[0], timeout, label="cond.wait")
            if r is TIMEOUT and tok in self.waiters:
                self.waiters.remove(tok)
        finally:
            if saved is not None:
                self._lock._acquire_restore(saved)
            else:
                self._lock.acquire()
        return tok[0]

    def wait_for(self, predicate, timeout=None):
        endtime = None
        result = predicate()
        while not result:
            if timeout is not None:
                if endtime is None:
                    endtime = K.S.now + timeout
                waittime = endtime - K.S.now
                if waittime <= 0:
                    break
                self.wait(waittime)
            else:
                self.wait(None)
            result = predicate()
        return result

    def notify(self, n=1):
        s = chk()
        if not self._is_owned():
            raise RuntimeError("cannot notify on un-acquired lock")
        s.point(label="cond.notify")
        for tok in self.waiters[:n]:
            tok[0] = True
        del self.waiters[:n]

    def notify_all(self):
        self.notify(len(self.waiters))


class Event:
    def __init__(self):
        self.flag = False

    def is_set(self):
        return self.flag

    def set(self):
        s = chk()
        s.point(label="event.set")
        self.flag = True

    def clear(self):
        s = chk()
        s.point(label="event.clear")
        self.flag = False

    def wait(self, timeout=None):
        s = chk()
        s.point(lambda: self.flag, timeout, label="event.wait")
        return self.flag


class Thread:
    def __init__(self, group=None, target=None, name=None, args=(), kwargs=None, *, daemon=None):
        self._target = target
        self._args = args
        self._kwargs = kwargs or {}
        self.name = name or "Thread"
        if daemon is None:
            cur = K.S.cur if K.S is not None and K.S.active else None
            daemon = bool(cur.daemon) if cur is not None else False
        self._daemonic = bool(daemon)
        self._st = None

    @property
    def daemon(self):
        return self._daemonic

    @daemon.setter
    def daemon(self, v):
        if self._st is not None:
            raise RuntimeError("cannot set daemon status of active thread")
        self._daemonic = bool(v)

    @property
    def ident(self):
        return None if self._st is None else self._st.id + 1

    def run(self):
        try:
            if self._target is not None:
                self._target(*self._args, **self._kwargs)
        finally:
            del self._target, self._args, self._kwargs

    def start(self):
        s = chk()
        if self._st is not None:
            raise RuntimeError("threads can only be started once")
        s.point(label="thread.start")
        role = {"ExecutorManagerThread": "manager", "QueueFeederThread": "feeder"}.get(
            self.name, self.name)
        self._st = s.spawn(self.run, role, s.cur.proc, self._daemonic)
        self._st.pyobj = self

    def join(self, timeout=None):
        s = chk()
        if self._st is None:
            raise RuntimeError("cannot join thread before it is started")
        if self._st is s.cur:
            raise RuntimeError("cannot join current thread")
        st = self._st
        s.point(lambda: st.state == "done", timeout, label="thread.join")

    def is_alive(self):
        return self._st is not None and self._st.state != "done"

    def __repr__(self):
        return f"<SimThread {self.name}>"


class _MainThread(Thread):
    def __init__(self, st):
        Thread.__init__(self, name="MainThread", daemon=False)
        self._st = st


def current_thread():
    st = K.S.cur
    if st.pyobj is None:
        st.pyobj = _MainThread(st)
    return st.pyobj


def get_ident():
    return K.S.cur.id + 1


class ThreadingState:
    """Per-world registry of threading._register_atexit callbacks (parent process only)."""

    def __init__(self):
        self.atexits = []


def make_threading(tstate):
    m = types.ModuleType("threading")

    def _register_atexit(func, *a, **kw):
        tstate.atexits.append((func, a, kw))
        return func

    def enumerate_():
        s = K.S
        me = s.cur
        return [t.pyobj or _MainThread(t) for t in s.threads
                if t.proc is me.proc and t.state != "done" and not t.killed]

    def main_thread():
        s = K.S
        for t in s.cur.proc.threads:
            if t.is_main:
                if t.pyobj is None:
                    t.pyobj = _MainThread(t)
                return t.pyobj

    for k, v in dict(Lock=Lock, RLock=RLock, Condition=Condition, Event=Event, Thread=Thread,
                     current_thread=current_thread, get_ident=get_ident,
                     _register_atexit=_register_atexit, local=_rt.local,
                     enumerate=enumerate_, main_thread=main_thread,
                     active_count=lambda: len(enumerate_()),
                     TIMEOUT_MAX=_rt.TIMEOUT_MAX).items():
        setattr(m, k, v)
    return m


# ------------------------------------------------------------------------------------------
# time
def sim_time():
    return K.S.now


def sim_sleep(d):
    s = chk()
    s.point(lambda: False, d, label="sleep", sleep=True)


def make_time():
    m = types.ModuleType("time")
    m.time = sim_time
    m.monotonic = sim_time
    m.perf_counter = sim_time
    m.sleep = sim_sleep
    return m


# ------------------------------------------------------------------------------------------
# queue (only the unbounded, non-blocking use made by the executor)
class SimQueue:
    def __init__(self, maxsize=0):
        self.q = collections.deque()

    def put(self, item, block=True, timeout=None):
        s = chk()
        s.point(label="queue.put")
        self.q.append(item)

    def get(self, block=True, timeout=None):
        s = chk()
        if block:
            r = s.point(lambda: bool(self.q), timeout, label="queue.get")
            if r is TIMEOUT:
                raise _queue.Empty
        else:
            s.point(label="queue.get_nowait")
            if not self.q:
                raise _queue.Empty
        return self.q.popleft()

    def get_nowait(self):
        return self.get(False)

    def put_nowait(self, item):
        return self.put(item, False)

    def qsize(self):
        return len(self.q)

    def empty(self):
        return not self.q


def make_queue():
    m = types.ModuleType("queue")
    m.Queue = SimQueue
    m.Empty = _queue.Empty
    m.Full = _queue.Full
    return m


# ------------------------------------------------------------------------------------------
# _multiprocessing.SemLock  (mirrors Modules/_multiprocessing/semaphore.c, POSIX branch)
RECURSIVE_MUTEX, SEMAPHORE = 0, 1


class SimSemLock:
    SEM_VALUE_MAX = 2 ** 31 - 1

    def __init__(self, kind, value, maxvalue, name, unlink):
        s = chk()
        if kind not in (RECURSIVE_MUTEX, SEMAPHORE):
            raise ValueError("unrecognized kind")
        if name in s.sem_names:
            raise FileExistsError(17, "File exists")
        k = K.KSem(s, name, value)
        s.sem_names[name] = k
        if unlink:
            del s.sem_names[name]
            k.linked = False
        self._init(k, kind, maxvalue, name)

    def _init(self, k, kind, maxvalue, name):
        self.k = k
        self.kind = kind
        self.maxvalue = maxvalue
        self.name = name
        self.handle = k.id + 1000
        self.count = 0
        self.last = None

    @classmethod
    def _rebuild(cls, handle, kind, maxvalue, name):
        s = chk()
        k = s.sem_names.get(name)
        if k is None:
            raise FileNotFoundError(2, "No such file or directory")
        o = cls.__new__(cls)
        o._init(k, kind, maxvalue, name)
        return o

    def _mine(self):
        return self.count > 0 and self.last is K.S.cur

    def acquire(self, block=True, timeout=None):
        s = chk()
        k = self.k
        if self.kind == RECURSIVE_MUTEX and self._mine():
            self.count += 1
            return True
        if not block:
            s.point(label=f"sem.try:{k.id}")
            if k.value > 0:
                k.value -= 1
                self.count += 1
                self.last = s.cur
                return True
            return False
        if timeout is not None and timeout < 0:
            timeout = 0.0
        r = s.point(lambda: k.value > 0, timeout, label=f"sem.acq:{k.id}")
        if r is TIMEOUT:
            return False
        k.value -= 1
        self.count += 1
        self.last = s.cur
        return True

    def release(self):
        s = chk()
        k = self.k
        if self.kind == RECURSIVE_MUTEX:
            if not self._mine():
                raise AssertionError("attempt to release recursive lock not owned by thread")
            if self.count > 1:
                self.count -= 1
                return
        s.point(label=f"sem.rel:{k.id}")
        if self.kind != RECURSIVE_MUTEX and k.value >= self.maxvalue:
            raise ValueError("semaphore or lock released too many times")
        k.value += 1
        self.count -= 1

    def __enter__(self):
        return self.acquire()

    def __exit__(self, *a):
        self.release()

    def _count(self):
        return self.count

    def _is_mine(self):
        return self._mine()

    def _get_value(self):
        return self.k.value

    def _is_zero(self):
        return self.k.value == 0

    def _after_fork(self):
        self.count = 0


def sem_unlink(name):
    s = K.S
    if s is None or not s.active or s.aborting:
        return
    if s.cur.killed:
        raise SimKilled()
    s.point(label="sem.unlink")
    w = getattr(s, "world", None)
    if w is not None:
        w.tracker_log.append(("UNLINK", name, "semlock", s.cur.proc.label))
    k = s.sem_names.pop(name, None)
    if k is None:
        raise FileNotFoundError(2, "No such file or directory")
    k.linked = False


def make__multiprocessing():
    m = types.ModuleType("_multiprocessing")
    m.SemLock = SimSemLock
    m.sem_unlink = sem_unlink
    m.flags = {}
    return m


# ------------------------------------------------------------------------------------------
# multiprocessing.connection
def _end(proc, fd):
    e = proc.fds.get(fd)
    if e is None:
        raise OSError(9, "Bad file descriptor")
    return e


class Connection:
    def __init__(self, handle, readable=True, writable=True):
        s = chk()
        handle = handle.__index__()
        if handle < 0:
            raise ValueError("invalid handle")
        if not readable and not writable:
            raise ValueError("at least one of `readable` and `writable` must be True")
        self._proc = s.cur.proc
        _end(self._proc, handle)
        self._handle = handle
        self._readable = readable
        self._writable = writable
        self._rbuf = None

    def __del__(self):
        if self._handle is not None:
            s = K.S
            if s is not None and s.active and not s.aborting and self._proc.alive \
                    and s is self._proc.sched and self._handle in self._proc.fds:
                # Connection.__del__ closes the handle (no decision point: GC-driven)
                try:
                    self._proc.close_fd(self._handle)
                except OSError:
                    pass
            self._handle = None

    def _check(self, r=False, w=False):
        s = chk()
        if s.cur.proc is not self._proc:
            s.internal_error = "connection object used by a foreign simulated process"
            raise InternalError(s.internal_error)
        if self._handle is None:
            raise OSError("handle is closed")
        if r and not self._readable:
            raise OSError("connection is write-only")
        if w and not self._writable:
            raise OSError("connection is read-only")
        return s

    @property
    def closed(self):
        return self._handle is None

    @property
    def readable(self):
        return self._readable

    @property
    def writable(self):
        return self._writable

    def fileno(self):
        self._check()
        return self._handle

    def close(self):
        if self._handle is None:
            return
        s = chk()
        s.point(label="conn.close")
        if self._handle is not None:
            h, self._handle = self._handle, None
            self._proc.close_fd(h)

    def _pipe(self):
        return _end(self._proc, self._handle)[0]

    def send_bytes(self, buf, offset=0, size=None):
        s = self._check(w=True)
        data = bytes(memoryview(buf)[offset:] if size is None
                     else memoryview(buf)[offset:offset + size])
        if len(data) > 0x7fffffff:
            raise struct.error("'i' format requires -2147483648 <= number <= 2147483647")
        p = self._pipe()
        total = len(data) + 4
        s.point(label=f"pipe.send:{p.id}")
        if p.readers == 0:
            raise BrokenPipeError(32, "Broken pipe")
        if total <= p.pipe_buf and total > p.free():
            # an atomic write blocks until all of it fits
            s.point(lambda: p.free() >= total or p.readers == 0, label=f"pipe.send=:{p.id}")
            if p.readers == 0:
                raise BrokenPipeError(32, "Broken pipe")
        if any(m[2] < m[1] for m in p.msgs):
            # another writer is in the middle of a multi-chunk message: these bytes land
            # inside it (what a lock around send_bytes is there to prevent)
            p.corrupt = True
        if total <= p.free():
            p.msgs.append([data, total, total, 0])
            return
        m = [data, total, 0, 0]
        p.msgs.append(m)
        while True:
            n = min(p.free(), m[1] - m[2])
            m[2] += n
            if m[2] >= m[1]:
                return
            s.point(lambda: p.free() > 0 or p.readers == 0, label=f"pipe.send+:{p.id}")
            if p.readers == 0:
                raise BrokenPipeError(32, "Broken pipe")

    def send(self, obj):
        self.send_bytes(pickle.dumps(obj, protocol=pickle.HIGHEST_PROTOCOL))

    def recv_bytes(self, maxlength=None):
        s = self._check(r=True)
        p = self._pipe()
        while True:
            s.point(p.readable, label=f"pipe.recv:{p.id}")
            if self._handle is None:
                raise OSError("handle is closed")
            if not p.msgs:
                raise EOFError
            if p.mid_read:
                # another reader is between the chunks of a message: this one takes bytes out
                # of its middle (what a lock around recv_bytes is there to prevent)
                p.corrupt = True
            m = p.msgs[0]
            m[3] = m[2]          # drain what has been written so far
            if m[3] >= m[1]:
                p.msgs.pop(0)
                if p.corrupt:
                    return b"\x00interleaved-writes"      # not a message any more
                return m[0]
            if p.writers == 0:
                p.msgs.pop(0)
                raise EOFError("got end of file during message")
            # truncated message: block until more bytes (or EOF) arrive
            p.mid_read += 1
            try:
                s.point(lambda: m[2] > m[3] or p.writers == 0, label=f"pipe.recv+:{p.id}")
            finally:
                p.mid_read -= 1

    def recv(self):
        return pickle.loads(self.recv_bytes())

    def poll(self, timeout=0.0):
        s = self._check(r=True)
        p = self._pipe()
        if not timeout or timeout < 0:
            if timeout is None:
                s.point(p.readable, label=f"pipe.poll:{p.id}")
                return True
            s.point(label=f"pipe.poll0:{p.id}")
            return p.readable()
        r = s.point(p.readable, timeout, label=f"pipe.poll:{p.id}")
        return r is not TIMEOUT

    def __enter__(self):
        return self

    def __exit__(self, *a):
        self.close()


def Pipe(duplex=True):
    s = chk()
    if duplex:
        s.internal_error = "duplex pipes are not modelled"
        raise InternalError(s.internal_error)
    s.point(label="pipe.new")
    p = K.KPipe(s, s.pipe_cap)
    proc = s.cur.proc
    r = proc.alloc_fd((p, "r"))
    w = proc.alloc_fd((p, "w"))
    return Connection(r, True, False), Connection(w, False, True)


def wait(object_list, timeout=None):
    s = chk()
    proc = s.cur.proc
    objs = list(object_list)

    def pipe_of(o):
        if isinstance(o, Connection):
            if o._handle is None:
                raise OSError("handle is closed")
            return o._pipe()
        if isinstance(o, int):
            return _end(proc, o)[0]
        raise TypeError(f"cannot wait on {o!r}")

    pipes = [pipe_of(o) for o in objs]
    if timeout is not None and timeout <= 0:
        s.point(label="wait0")
    else:
        s.point(lambda: any(p.readable() for p in pipes), timeout, label="wait")
    return [o for o, p in zip(objs, pipes) if p.readable()]


def make_connection():
    m = types.ModuleType("multiprocessing.connection")
    m.Connection = Connection
    m.Pipe = Pipe
    m.wait = wait
    m._ConnectionBase = Connection
    return m


# ------------------------------------------------------------------------------------------
# os (a copy of the real module with every process-affecting entry point replaced or denied)
_DENY = ["kill", "killpg", "fork", "forkpty", "waitpid", "wait", "wait3", "wait4", "waitid",
         "dup", "dup2", "execv", "execve", "execvp", "execl", "spawnv", "spawnve", "system",
         "popen", "abort", "fdopen", "write", "read", "posix_spawn", "posix_spawnp", "pipe2",
         "open", "unlink", "remove", "rmdir", "mkdir", "makedirs", "rename", "truncate"]


def make_os(world):
    m = types.ModuleType("os")
    m.__dict__.update({k: v for k, v in _os.__dict__.items() if not k.startswith("__")})

    def deny(name):
        def f(*a, **k):
            s = K.S
            msg = f"unshimmed os.{name}{a!r} reached from simulated code"
            if s is not None:
                s.internal_error = msg
            raise InternalError(msg)
        return f

    for n in _DENY:
        if hasattr(_os, n):
            setattr(m, n, deny(n))
    def getpid():
        s = K.S
        if s is None or not s.active or s.cur is None:
            return -1      # late finalizers of a finished world: "different process" -> ignored
        return s.cur.proc.pid
    m.getpid = getpid
    m.getppid = lambda: (K.S.cur.proc.parent.pid if K.S.cur.proc.parent else 1)

    def close(fd):
        s = K.S
        if s is None or not s.active or s.aborting:
            return
        if s.cur.killed:
            raise SimKilled()
        s.point(label="os.close")
        s.cur.proc.close_fd(fd)

    def pipe():
        s = chk()
        s.point(label="os.pipe")
        p = K.KPipe(s, s.pipe_cap)
        proc = s.cur.proc
        return proc.alloc_fd((p, "r")), proc.alloc_fd((p, "w"))

    def _exit(code):
        raise SystemExit(code)

    m.close = close
    m.pipe = pipe
    m._exit = _exit
    m.set_inheritable = lambda fd, v: None
    m.get_inheritable = lambda fd: False
    m.environ = world.environ
    m.urandom = lambda n: b"\0" * n
    return m


# ------------------------------------------------------------------------------------------
# psutil
class NoSuchProcess(Exception):
    pass


class _MemInfo:
    def __init__(self, rss):
        self.rss = rss


class PsProcess:
    def __init__(self, pid=None):
        s = chk()
        if pid is None:
            pid = s.cur.proc.pid
        p = s.procs.get(pid)
        if p is None or p.reaped:
            raise NoSuchProcess(pid)
        self._p = p
        self.pid = pid

    def children(self, recursive=False):
        s = chk()
        s.point(label="psutil.children")
        out = []

        def rec(p):
            for q in s.procs.values():
                if q.parent is p and not q.reaped:
                    out.append(PsProcess(q.pid))
                    if recursive:
                        rec(q)
        rec(self._p)
        return out

    def kill(self):
        s = chk()
        s.point(label="psutil.kill")
        if self._p.reaped:
            raise NoSuchProcess(self.pid)
        if self._p.alive:
            s.trace.append(("killed-by", s.cur.full, self._p.label, K.stack_sig_proc(s, self._p)))
            s.kill_proc(self._p, s.cur, -9)
            if s.cur.killed:
                raise SimKilled()

    def memory_info(self):
        s = chk()
        return _MemInfo(self._p.info.get("rss", 50_000_000))


def make_psutil():
    m = types.ModuleType("psutil")
    m.Process = PsProcess
    m.NoSuchProcess = NoSuchProcess
    return m
