"""A *world*: a private graph of module objects in which the unmodified loky sources (from
/repo's working tree) and the stdlib modules they are built on (multiprocessing.queues/
process/util, concurrent.futures._base) are exec'ed with an ``__import__`` that resolves the
syscall/C-extension layer to the shims of vf.sim.shims."""
import builtins
import importlib
import io as _io
import itertools
import os
import pickle
import sys
import types
import weakref

from . import kernel as K
from . import shims
from .kernel import InternalError, chk

REPO = os.environ.get("VF_REPO", "/repo")
STDLIB = os.path.dirname(os.__file__)
_code_cache = {}

import multiprocessing.context as _real_mpcontext   # noqa: E402  (thread-local spawning flag)
import concurrent.futures.process as _real_cfprocess  # noqa: E402
import signal as _real_signal  # noqa: E402
import subprocess as _real_subprocess  # noqa: E402


def _compile(path):
    code = _code_cache.get(path)
    if code is None:
        with open(path) as f:
            code = compile(f.read(), path, "exec")
        _code_cache[path] = code
        if K._mon_on and "/loky/" in path:
            K.enable_line_mode([code])
    return code


class Recorder(list):
    pass


class OrderedSet:
    """set with insertion-order iteration (deterministic for objects hashed by address)"""

    def __init__(self, it=()):
        self._d = dict.fromkeys(it)

    def add(self, x):
        self._d[x] = None

    def discard(self, x):
        self._d.pop(x, None)

    def remove(self, x):
        del self._d[x]

    def __iter__(self):
        return iter(list(self._d))

    def __len__(self):
        return len(self._d)

    def __contains__(self, x):
        return x in self._d

    def copy(self):
        return OrderedSet(self._d)

    def clear(self):
        self._d.clear()


class TracedDict(dict):
    """dict whose every operation is a decision point; Python-level iteration is stepwise and
    raises like the builtin when the size changes (list(d.values()) stays atomic)."""

    def __init__(self, tag):
        dict.__init__(self)
        self._tag = tag

    def _p(self, op):
        s = K.S
        if s is not None and s.active and not s.aborting:
            if s.cur.killed:
                raise K.SimKilled()
            s.point(label=f"{self._tag}.{op}")

    def __getitem__(self, k):
        self._p("get")
        return dict.__getitem__(self, k)

    def __setitem__(self, k, v):
        self._p("set")
        dict.__setitem__(self, k, v)

    def __delitem__(self, k):
        self._p("del")
        dict.__delitem__(self, k)

    def __contains__(self, k):
        self._p("in")
        return dict.__contains__(self, k)

    def __len__(self):
        self._p("len")
        return dict.__len__(self)

    def get(self, k, d=None):
        self._p("get")
        return dict.get(self, k, d)

    def pop(self, *a):
        self._p("pop")
        return dict.pop(self, *a)

    def popitem(self):
        self._p("popitem")
        return dict.popitem(self)

    def clear(self):
        self._p("clear")
        dict.clear(self)

    def raw_len(self):
        return dict.__len__(self)

    def raw_keys(self):
        return list(dict.keys(self))

    def raw_values(self):
        return list(dict.values(self))

    def values(self):
        return _View(self, "values")

    def items(self):
        return _View(self, "items")

    def keys(self):
        return _View(self, "keys")

    def __iter__(self):
        return _View(self, "keys").__iter__(depth=2)


class _View:
    def __init__(self, d, kind):
        self.d = d
        self.kind = kind

    def _snapshot(self):
        d = self.d
        return list(getattr(dict, self.kind)(d))

    def __len__(self):
        return self.d.__len__()

    def __iter__(self, depth=1):
        fr = sys._getframe(depth)
        stepwise = fr.f_code.co_code[fr.f_lasti] == _GET_ITER
        d = self.d
        if not stepwise:
            d._p(self.kind)
            return iter(self._snapshot())
        return self._steps()

    def _steps(self):
        d = self.d
        d._p(self.kind + ".iter")
        n = dict.__len__(d)
        snap = self._snapshot()
        for x in snap:
            if dict.__len__(d) != n:
                raise RuntimeError("dictionary changed size during iteration")
            yield x
            d._p(self.kind + ".next")
        if dict.__len__(d) != n:
            raise RuntimeError("dictionary changed size during iteration")


import opcode as _opcode  # noqa: E402
_GET_ITER = _opcode.opmap["GET_ITER"]


class TracedList(list):
    def __init__(self, tag):
        list.__init__(self)
        self._tag = tag

    def _p(self, op):
        s = K.S
        if s is not None and s.active and not s.aborting:
            if s.cur.killed:
                raise K.SimKilled()
            s.point(label=f"{self._tag}.{op}")

    def __iadd__(self, other):
        self._p("iadd")
        return list.__iadd__(self, other)

    def append(self, x):
        self._p("append")
        list.append(self, x)

    def remove(self, x):
        self._p("remove")
        list.remove(self, x)

    def __len__(self):
        self._p("len")
        return list.__len__(self)

    def __contains__(self, x):
        self._p("in")
        return list.__contains__(self, x)

    def raw_len(self):
        return list.__len__(self)

    def raw(self):
        return list(list.__iter__(self))


class SafeBytesIO(_io.BytesIO):
    def getbuffer(self):
        return memoryview(self.getvalue())


class World:
    def __init__(self, sched, cpu_count=2, psutil=True, environ=None):
        self.S = sched
        self.mods = {}
        self.sources = {}
        self.environ = dict(environ or {"PATH": "/usr/bin", "HOME": "/root"})
        self.warnings = Recorder()
        self.logs = Recorder()
        self.prints = Recorder()
        self.tracker_log = Recorder()
        self.atexits = []
        self.tstate = shims.ThreadingState()
        self.cpu_count = cpu_count
        self.use_psutil = psutil
        self.execs = []          # bookkeeping handles of every executor created
        self.spawn_log = []      # one entry per simulated fork_exec
        self.tracker_proc = None
        self.tracker_fd = None
        self.registered = []

    # ---- import machinery ----------------------------------------------------------------
    def resolve(self, name, globs, level):
        if level == 0:
            return name
        pkg = globs.get("__package__")
        if pkg is None:
            pkg = globs["__name__"].rpartition(".")[0]
        parts = pkg.split(".")
        if level > 1:
            parts = parts[:-(level - 1)]
        base = ".".join(parts)
        return base + ("." + name if name else "")

    def get(self, absname):
        m = self.mods.get(absname)
        if m is not None:
            return m
        if absname in self.sources:
            path, is_pkg = self.sources[absname]
            return self.load(absname, path, is_pkg)
        return None

    def imp(self, name, globs=None, locs=None, fromlist=(), level=0):
        absname = self.resolve(name, globs, level) if level else name
        if absname in self.denied:
            raise ImportError(f"{absname} is not available in the simulated world")
        m = self.get(absname)
        if m is not None:
            if fromlist:
                for f in fromlist:
                    if not hasattr(m, f):
                        sub = self.get(absname + "." + f)
                        if sub is not None:
                            setattr(m, f, sub)
                return m
            top = absname.split(".")[0]
            t = self.get(top)
            return t if t is not None else m
        top = absname.split(".")[0]
        if top == "loky":
            raise InternalError(f"real import of {absname} attempted inside a world")
        real = importlib.import_module(absname)
        if fromlist:
            return real
        t = self.get(top)
        return t if t is not None else sys.modules[top]

    def load(self, absname, path, is_pkg=False):
        code = _compile(path)
        m = types.ModuleType(absname)
        m.__file__ = path
        m.__package__ = absname if is_pkg else absname.rpartition(".")[0]
        b = dict(builtins.__dict__)
        b["__import__"] = self.imp
        b["print"] = lambda *a, **k: self.prints.append(" ".join(map(str, a))[:500])
        m.__dict__["__builtins__"] = b
        self.add(absname, m)
        exec(code, m.__dict__)
        return m

    def add(self, absname, m):
        self.mods[absname] = m
        if absname.startswith("loky"):
            sys.modules[absname] = m
            self.registered.append(absname)
        parent, _, child = absname.rpartition(".")
        if parent and parent in self.mods:
            setattr(self.mods[parent], child, m)

    def teardown(self):
        for n in self.registered:
            if sys.modules.get(n) is self.mods.get(n):
                del sys.modules[n]
        u = self.mods.get("multiprocessing.util")
        if u is not None:
            u._finalizer_registry.clear()
            u._afterfork_registry.clear()
        self.mods.clear()
        self.execs.clear()

    denied = frozenset({"_posixsubprocess", "_winapi", "msvcrt", "fcntl", "pty", "viztracer",
                        "loky.backend.spawn", "loky.backend.fork_exec",
                        "multiprocessing.resource_tracker", "multiprocessing.spawn",
                        "multiprocessing.popen_fork", "multiprocessing.forkserver"})


# ------------------------------------------------------------------------------------------
def build_world(sched, cpu_count=2, psutil=True, environ=None):
    w = World(sched, cpu_count, psutil, environ)
    S = sched
    w.mods["threading"] = shims.make_threading(w.tstate)
    w.mods["time"] = shims.make_time()
    w.mods["queue"] = shims.make_queue()
    w.mods["_multiprocessing"] = shims.make__multiprocessing()
    simos = shims.make_os(w)
    w.mods["os"] = simos
    w.simos = simos
    if psutil:
        w.mods["psutil"] = shims.make_psutil()
    else:
        w.denied = w.denied | {"psutil"}

    io_m = types.ModuleType("io")
    io_m.__dict__.update({k: v for k, v in _io.__dict__.items() if not k.startswith("__")})
    io_m.BytesIO = SafeBytesIO
    w.mods["io"] = io_m

    sig = types.ModuleType("signal")
    for k in dir(_real_signal):
        if k.startswith("SIG") or k in ("Signals", "Handlers", "Sigmasks", "NSIG", "valid_signals",
                                        "strsignal", "ITIMER_REAL", "ITIMER_VIRTUAL",
                                        "ITIMER_PROF"):
            setattr(sig, k, getattr(_real_signal, k))

    def _sig_missing(name):
        # anything that would act on the real process: the model has no answer -> the check
        # is broken (internal error), never a verdict about loky
        if name.startswith("__"):
            raise AttributeError(name)
        msg = f"unshimmed signal.{name} reached from simulated code"
        s = K.S
        if s is not None:
            s.internal_error = msg
        raise InternalError(msg)
    sig.__getattr__ = _sig_missing
    w.mods["signal"] = sig

    sp = types.ModuleType("subprocess")
    sp.CalledProcessError = _real_subprocess.CalledProcessError
    sp._args_from_interpreter_flags = _real_subprocess._args_from_interpreter_flags
    sp._USE_VFORK = True

    def check_output(cmd, **kw):
        s = chk()
        if cmd[:2] == ["pgrep", "-P"]:
            s.point(label="pgrep")
            pid = int(cmd[2])
            kids = [q.pid for q in s.procs.values()
                    if q.parent is not None and q.parent.pid == pid and q.alive]
            if not kids:
                raise sp.CalledProcessError(1, cmd)
            return "".join(f"{k}\n" for k in kids)
        raise InternalError(f"unshimmed subprocess {cmd}")

    def sp_run(*a, **k):
        raise InternalError(f"unshimmed subprocess.run {a}")
    sp.check_output = check_output
    sp.run = sp_run
    w.mods["subprocess"] = sp

    def os_kill(pid, signum):
        s = chk()
        s.point(label="os.kill")
        p = s.procs.get(pid)
        if p is None or p.reaped:
            raise ProcessLookupError(3, "No such process")
        if p.alive and int(signum) != 9 and int(signum) in p.info.get("ignored_signals", ()):
            s.trace.append(("signal-ignored", p.label, int(signum)))
            return          # the target ignores / handles this signal (SIGKILL cannot be)
        if p.alive:
            s.trace.append(("killed-by", s.cur.full, p.label, K.stack_sig_proc(s, p)))
            s.kill_proc(p, s.cur, -int(signum))
            if s.cur.killed:
                raise K.SimKilled()
    simos.kill = os_kill

    ax = types.ModuleType("atexit")
    ax.register = lambda f, *a, **k: (w.atexits.append((f, a, k)), f)[1]

    def ax_unreg(f):
        w.atexits[:] = [x for x in w.atexits if x[0] is not f]
    ax.unregister = ax_unreg
    w.mods["atexit"] = ax

    fh = types.ModuleType("faulthandler")
    fh._on = False
    fh.is_enabled = lambda: True
    fh.enable = lambda *a, **k: None
    w.mods["faulthandler"] = fh

    gcm = types.ModuleType("gc")

    def collect(*a):
        s = K.S
        if s is not None and s.active and not s.aborting:
            s.point(label="gc.collect")
        return 0
    gcm.collect = collect
    w.mods["gc"] = gcm

    wm = types.ModuleType("warnings")
    import warnings as _rw

    def warn(message, category=UserWarning, stacklevel=1, source=None):
        w.warnings.append((getattr(category, "__name__", str(category)), str(message)[:200]))
        if getattr(w, "werror", False) and not getattr(w, "exiting", False):
            # the interpreter runs with warnings turned into errors (-W error)
            if isinstance(message, Warning):
                raise message
            raise (category or UserWarning)(message)
    wm.warn = warn
    wm.catch_warnings = _rw.catch_warnings
    wm.simplefilter = lambda *a, **k: None
    wm.filterwarnings = lambda *a, **k: None
    w.mods["warnings"] = wm

    # multiprocessing package -------------------------------------------------------------
    mp = types.ModuleType("multiprocessing")
    mp.__path__ = []
    w.mods["multiprocessing"] = mp
    conn = shims.make_connection()
    w.add("multiprocessing.connection", conn)
    mp.Pipe = shims.Pipe
    mctx = types.ModuleType("multiprocessing.context")
    for k in ("assert_spawning", "set_spawning_popen", "get_spawning_popen", "BaseContext",
              "reduction", "ProcessError", "BufferTooShort", "TimeoutError",
              "AuthenticationError"):
        setattr(mctx, k, getattr(_real_mpcontext, k))
    mctx._concrete_contexts = {}
    w.add("multiprocessing.context", mctx)
    import multiprocessing.reduction as _real_red
    w.add("multiprocessing.reduction", _real_red)
    w.sources["multiprocessing.process"] = (STDLIB + "/multiprocessing/process.py", False)
    w.sources["multiprocessing.util"] = (STDLIB + "/multiprocessing/util.py", False)
    w.sources["multiprocessing.queues"] = (STDLIB + "/multiprocessing/queues.py", False)
    procm = w.get("multiprocessing.process")
    # the registry of child processes is a set of objects hashed by address: its iteration
    # order (the order in which Process.start()/_cleanup() polls the children) would differ
    # from run to run; an insertion-ordered set makes the harness own that order
    procm._children = OrderedSet()
    util = w.get("multiprocessing.util")
    mp.current_process = procm.current_process
    mp.active_children = procm.active_children

    def mp_get_context(method=None):
        if method is None:
            method = "loky"
        try:
            return mctx._concrete_contexts[method]
        except KeyError:
            raise ValueError(f"cannot find context for {method!r}") from None
    mp.get_context = mp_get_context
    mp.cpu_count = lambda: w.cpu_count
    msync = types.ModuleType("multiprocessing.synchronize")
    msync.SEM_VALUE_MAX = shims.SimSemLock.SEM_VALUE_MAX
    w.add("multiprocessing.synchronize", msync)

    # concurrent.futures ------------------------------------------------------------------
    w.sources["concurrent.futures._base"] = (STDLIB + "/concurrent/futures/_base.py", False)
    cfpkg = types.ModuleType("concurrent")
    cfpkg.__path__ = []
    w.mods["concurrent"] = cfpkg
    cf = types.ModuleType("concurrent.futures")
    cf.__path__ = []
    w.add("concurrent.futures", cf)
    base = w.get("concurrent.futures._base")

    class _Log:
        def _rec(self, lvl, msg, *a, **k):
            try:
                msg = msg % a if a else msg
            except Exception:
                pass
            w.logs.append((lvl, str(msg)[:300]))
        def critical(self, m, *a, **k): self._rec("critical", m, *a)
        def exception(self, m, *a, **k): self._rec("exception", m, *a)
        def error(self, m, *a, **k): self._rec("error", m, *a)
        def warning(self, m, *a, **k): self._rec("warning", m, *a)
        def info(self, m, *a, **k): pass
        def debug(self, m, *a, **k): pass
    base.LOGGER = _Log()
    for k in ("FIRST_COMPLETED", "FIRST_EXCEPTION", "ALL_COMPLETED", "CancelledError",
              "TimeoutError", "InvalidStateError", "BrokenExecutor", "Future", "Executor",
              "wait", "as_completed"):
        setattr(cf, k, getattr(base, k))
    w.add("concurrent.futures.process", _real_cfprocess)

    # loky ---------------------------------------------------------------------------------
    lk = types.ModuleType("loky")
    lk.__path__ = [REPO + "/loky"]
    w.add("loky", lk)
    lb = types.ModuleType("loky.backend")
    lb.__path__ = [REPO + "/loky/backend"]
    w.add("loky.backend", lb)
    for n in ("_base", "process_executor", "reusable_executor", "initializers",
              "cloudpickle_wrapper"):
        w.sources["loky." + n] = (f"{REPO}/loky/{n}.py", False)
    for n in ("queues", "synchronize", "utils", "reduction", "_posix_reduction", "process",
              "context"):
        w.sources["loky.backend." + n] = (f"{REPO}/loky/backend/{n}.py", False)
    _make_tracker(w)
    _make_popen(w)
    ctxm = w.get("loky.backend.context")
    ctxm.cpu_count = lambda only_physical_cores=False: w.cpu_count
    ctxm.LokyContext.cpu_count = staticmethod(ctxm.cpu_count)
    lb.get_context = ctxm.get_context
    sync = w.get("loky.backend.synchronize")
    sync.SemLock._rand = (f"s{i:04d}" for i in itertools.count())
    pe = w.get("loky.process_executor")
    pe.cpu_count = ctxm.cpu_count
    re_ = w.get("loky.reusable_executor")
    re_.cpu_count = ctxm.cpu_count
    w.pe, w.re, w.util, w.procm, w.sync, w.ctx = pe, re_, util, procm, sync, ctxm.ctx_loky
    _trace_containers(w)
    S.annotate_kill = _make_kill_annotator(w)
    S.extra_state = lambda: tuple(
        (h["pending"].raw_len(), h["running"].raw_len(), h["processes"].raw_len(),
         rawflag(h["flags"], "shutdown"), rawflag(h["flags"], "broken") is not None,
         rawflag(h["flags"], "kill_workers"))
        for h in w.execs)
    return w


def rawflag(flags, name):
    """Read an _ExecutorFlags attribute without creating a decision point (harness use)."""
    return flags.__dict__.get("_tf_" + name, flags.__dict__.get(name))


def _announce_ranges(pe):
    """Line ranges of _process_worker that lie after an exit announcement
    (result_queue.put(pid)) up to the return that follows it."""
    import inspect
    src, first = inspect.getsourcelines(pe._process_worker)
    ann, ranges = [], []
    for i, line in enumerate(src):
        if "result_queue.put(pid)" in line:
            ann.append(first + i)
            for j in range(i + 1, len(src)):
                if src[j].strip() == "return":
                    ranges.append((first + i + 1, first + j))
                    break
    return ann, ranges


def _make_kill_annotator(w):
    ann, ranges = _announce_ranges(w.pe)
    code_name = "_process_worker"

    def annotate(proc):
        phase = "not-started"
        for t in proc.threads:
            if not t.is_main or t.state == "done":
                continue
            fr = sys._current_frames().get(t.real.ident)
            while fr is not None:
                if fr.f_code.co_name == code_name and "/loky/" in fr.f_code.co_filename:
                    ln = fr.f_lineno
                    if ln in ann:
                        phase = "announcing"
                    elif any(a <= ln <= b for a, b in ranges):
                        phase = "announced"
                    else:
                        phase = "working"
                    break
                fr = fr.f_back
        proc.info["kill_phase"] = phase
        execs = [(rawflag(h["flags"], "shutdown"), rawflag(h["flags"], "broken") is not None)
                 for h in w.execs]
        return dict(phase=phase, execs=execs, t=w.S.now)
    return annotate


def _traced_flags(w):
    """_ExecutorFlags with a decision point before every read/write of its plain attributes
    (they are read without the lock by the manager thread)."""
    pe = w.pe
    Base = pe._ExecutorFlags

    def _p(op):
        s = K.S
        if s is not None and s.active and not s.aborting and s.cur is not None:
            if s.cur.killed:
                raise K.SimKilled()
            s.point(label=op)

    def prop(name):
        key = "_tf_" + name

        def get(self):
            _p("flags.get:" + name)
            return self.__dict__.get(key)

        def set_(self, v):
            _p("flags.set:" + name)
            self.__dict__[key] = v
        return property(get, set_)

    class TracedFlags(Base):
        shutdown = prop("shutdown")
        broken = prop("broken")
        kill_workers = prop("kill_workers")
    TracedFlags.__name__ = Base.__name__
    TracedFlags.__qualname__ = Base.__qualname__
    pe._ExecutorFlags = TracedFlags


def _trace_containers(w):
    pe = w.pe
    _traced_flags(w)
    orig = pe.ProcessPoolExecutor._setup_queues

    def _setup_queues(self, *a, **k):
        self._pending_work_items = TracedDict("pending")
        self._running_work_items = TracedList("running")
        self._processes = TracedDict("procs")
        h = dict(flags=self._flags, pending=self._pending_work_items,
                 running=self._running_work_items, processes=self._processes,
                 ref=weakref.ref(self), max_workers=self._max_workers, mgr=None,
                 max_seen=self._max_workers, index=len(w.execs))
        w.execs.append(h)
        r = orig(self, *a, **k)
        h["slot_ksem"] = self._call_queue._sem._semlock.k
        h["queue_size"] = self._call_queue._maxsize
        return r
    pe.ProcessPoolExecutor._setup_queues = _setup_queues


def _make_tracker(w):
    """loky.backend.resource_tracker recorder: the message log is replayed through the real
    tracker loop by the C13 check; the tracker itself is a thread-less simulated process that
    holds the read end of the tracker pipe."""
    rt = types.ModuleType("loky.backend.resource_tracker")

    def ensure_running():
        s = chk()
        if w.tracker_fd is None:
            s.point(label="tracker.spawn")
            tp = s.new_proc("tracker", s.cur.proc)
            p = K.KPipe(s, s.pipe_cap)
            tp.alloc_fd((p, "r"))
            w.tracker_fd = s.cur.proc.alloc_fd((p, "w"))
            w.tracker_proc = tp
            w.tracker_pipe = p

    def _send(cmd, name, rtype):
        s = K.S
        if s is None or not s.active or s.aborting:
            return
        if s.cur.killed:
            raise K.SimKilled()
        ensure_running()
        s.point(label="tracker.send")
        w.tracker_log.append((cmd, name, rtype, s.cur.proc.label))

    class _RT:
        def getfd(self):
            ensure_running()
            return w.tracker_fd
        def ensure_running(self):
            ensure_running()
    rt._resource_tracker = _RT()
    rt.ensure_running = ensure_running
    rt.getfd = rt._resource_tracker.getfd
    rt.register = lambda name, rtype: _send("REGISTER", name, rtype)
    rt.unregister = lambda name, rtype: _send("UNREGISTER", name, rtype)
    rt.maybe_unlink = lambda name, rtype: _send("MAYBE_UNLINK", name, rtype)
    w.add("loky.backend.resource_tracker", rt)


def _make_popen(w):
    mod = types.ModuleType("loky.backend.popen_loky_posix")
    simos = w.simos

    class _DupFd:
        def __init__(self, fd):
            self.fd = fd

        def detach(self):
            return self.fd

    class Popen:
        method = "loky"
        DupFd = _DupFd

        def __init__(self, process_obj):
            s = chk()
            self.returncode = None
            self._fds = []
            red = w.get("loky.backend.reduction")
            rt = w.get("loky.backend.resource_tracker")
            tracker_fd = rt._resource_tracker.getfd()
            fp = _io.BytesIO()
            _real_mpcontext.set_spawning_popen(self)
            try:
                red.dump(process_obj, fp)
            finally:
                _real_mpcontext.set_spawning_popen(None)
            data = fp.getvalue()
            self._fds.append(tracker_fd)
            s.point(label="fork_exec")
            parent = s.cur.proc
            n = sum(1 for p in s.procs.values() if p.label.startswith("worker#"))
            child = s.new_proc(f"worker#{n}", parent)
            for fd in self._fds:
                end = parent.fds.get(fd)
                if end is None:
                    raise OSError(9, "Bad file descriptor (pass_fds)")
                if fd not in child.fds:
                    child.fds[fd] = end
                    end[0].ref(end[1], +1)
            spipe = K.KPipe(s, s.pipe_cap)
            parent_r = parent.alloc_fd((spipe, "r"))
            child.alloc_fd((spipe, "w"))
            child.env = {**w.environ, **(getattr(process_obj, "env", None) or {})}
            child.info["keep_fds"] = sorted(set(self._fds))
            self.sentinel = parent_r
            self.pid = child.pid
            self.proc = child
            self._parent = parent
            w.util.Finalize(self, simos.close, (parent_r,))
            s.popens.append((child.label, weakref.ref(self)))
            w.spawn_log.append(dict(label=child.label, pid=child.pid,
                                    after_break=any(rawflag(h["flags"], "broken") is not None
                                                    for h in w.execs),
                                    keep_fds=child.info["keep_fds"], env=child.env,
                                    parent_fds=sorted(parent.fds)))
            s.spawn(_child_main(w, data, child), "main", child, is_main=True)
            d = getattr(w, "slow_start", None)
            if d:
                # environment answer "Process.start() returns late" (loaded machine, slow
                # fork_exec): the child already runs while its parent is still inside start()
                s.point(lambda: False, d, label="fork_exec.slow", sleep=True)

        def duplicate_for_child(self, fd):
            self._fds.append(fd)
            return fd

        def poll(self, flag=os.WNOHANG):
            if self.returncode is None:
                s = chk()
                proc = self.proc
                if flag == os.WNOHANG:
                    s.point(label="waitpid.nohang")
                    if proc.alive:
                        return None
                else:
                    s.point(lambda: not proc.alive, label="waitpid")
                proc.reaped = True
                self.returncode = proc.exitcode
            return self.returncode

        def wait(self, timeout=None):
            if self.returncode is None:
                if timeout is not None:
                    if not shims.wait([self.sentinel], timeout):
                        return None
                return self.poll(os.WNOHANG if timeout == 0.0 else 0)
            return self.returncode

        def _send_signal(self, code):
            if self.returncode is None:
                s = chk()
                s.point(label="kill")
                if self.proc.alive:
                    s.trace.append(("killed-by", s.cur.full, self.proc.label, K.stack_sig_proc(s, self.proc)))
                    s.kill_proc(self.proc, s.cur, code)

        def terminate(self):
            self._send_signal(-15)

        def close(self):
            pass

        @staticmethod
        def thread_is_spawning():
            return True

    mod.Popen = Popen
    w.add("loky.backend.popen_loky_posix", mod)
    w.Popen = Popen


def _child_main(w, data, child):
    def main():
        obj = pickle.loads(data)
        target, args, kwargs = obj._target, obj._args, obj._kwargs
        pe = w.pe
        child.info["args"] = args
        if getattr(target, "__globals__", None) is pe.__dict__:
            g = dict(pe.__dict__)
            g["_CURRENT_DEPTH"] = 0
            g["_global_shutdown"] = False
            g["_global_shutdown_lock"] = shims.Lock()
            g["_threads_wakeups"] = weakref.WeakKeyDictionary()

            def clone(f):
                return types.FunctionType(f.__code__, g, f.__name__, f.__defaults__, f.__closure__)
            g["_python_exit"] = clone(pe._python_exit)
            target = clone(target)
            child.info["globals"] = g
        if target is not None:
            target(*args, **kwargs)
    return main


def interpreter_exit(w):
    """What CPython does when the main thread of the parent ends: threading._shutdown()
    (registered atexits in reverse, then join the non-daemon threads), then atexit."""
    s = chk()
    s.exit_started = True
    for f, a, k in reversed(list(w.tstate.atexits)):
        f(*a, **k)
    me = s.cur
    for t in list(s.threads):
        if t.proc is me.proc and t is not me and not t.daemon and t.state != "done":
            s.point(lambda t=t: t.state == "done", label="exit.join")
    for f, a, k in reversed(list(w.atexits)):
        f(*a, **k)
