"""Judges the C19 real nested chains."""
import concurrent.futures as cf
import itertools

from . import runner

HOWS = ["fresh", "reuse", "timeout", "resize", "kill"]


def configs(tier):
    out = []
    ms = [1, 2] if tier == "quick" else [1, 2, 3]
    for m, api, how in itertools.product(ms, ["ppe", "reusable"], HOWS):
        out.append(dict(max_depth=m, levels=m + 1, api=api, how=[how], method="default"))
    for api in ["ppe", "reusable"]:
        out.append(dict(max_depth=3, levels=4, api=api, how=["reuse", "timeout", "resize"],
                        method="default"))
    for method in ["loky_init_main", "spawn", "fork"]:
        out.append(dict(max_depth=2, levels=3, api="ppe", how=["reuse"], method=method))
    # unlimited depth (0 and negative values): the chain stops by itself after `levels`
    out.append(dict(max_depth=0, levels=3, api="ppe", how=["fresh"], method="default"))
    out.append(dict(max_depth=0, levels=2, api="ppe", how=["fresh"], method="fork"))
    if tier != "quick":
        out.append(dict(max_depth=-1, levels=4, api="reusable", how=["kill", "resize"],
                        method="default"))
        for method, api in itertools.product(["loky_init_main", "spawn", "fork"],
                                             ["ppe", "reusable"]):
            if method == "fork" and api == "reusable":
                continue        # get_reusable_executor refuses the fork context by design
            for how in (["timeout"], ["resize"]):
                out.append(dict(max_depth=2, levels=3, api=api, how=how, method=method))
    return out


def judge(cfg, r):
    """-> list of (signature, message)"""
    v = []
    tag = f"max{cfg['max_depth']}:{cfg['api']}:{'+'.join(cfg['how'])}:{cfg['method']}"
    res = r["result"]
    if r["status"] != "ok" or not isinstance(res, list):
        return [(f"C19:R:chain-failed:{tag}", f"{r['status']} {str(res)[:400]} {r['stdio'][-600:]}")]
    m = cfg["max_depth"]
    for k, rec in enumerate(res):
        if rec.get("level") != k:
            v.append((f"C19:R:bad-record:{tag}", str(rec)[:300]))
            break
        if rec["depth"] != k:
            v.append((f"C19:R:depth-seen:{tag}:level{k}",
                      f"the process at nesting level {k} sees _CURRENT_DEPTH={rec['depth']}"))
        if rec.get("stopped"):
            continue
        allowed = not (m > 0 and k >= m)
        if cfg["method"] == "fork" and k >= 1:
            allowed = False
        if rec.get("created") is not allowed:
            v.append((f"C19:R:creation:{tag}:level{k}",
                      f"creating an executor at depth {k} with LOKY_MAX_DEPTH={m} under "
                      f"{cfg['method']}: created={rec.get('created')} expected {allowed} "
                      f"{rec.get('error', '')}"))
            continue
        if not allowed:
            if rec.get("spawned"):
                v.append((f"C19:R:spawned-despite-refusal:{tag}:level{k}",
                          f"processes {rec['spawned']} were spawned by the refused constructor"))
            continue
        if "failure" in rec:
            v.append((f"C19:R:level-failed:{tag}:level{k}", rec["failure"]))
            continue
        bad = [d for d in rec.get("seen", []) if d != k + 1]
        if bad or not rec.get("seen"):
            v.append((f"C19:R:worker-depth:{tag}:level{k}:{rec.get('how')}",
                      f"workers of the executor created at depth {k} ({rec.get('how')}) see "
                      f"depths {rec.get('seen')} (expected all {k + 1})"))
        how = rec.get("how")
        if how in ("timeout", "kill", "resize") and len(rec.get("worker_pids", [])) < 2:
            # the scenario did not obtain a second worker process: nothing wrong with loky,
            # but the case did not exercise what it names
            v.append((f"vacuous:{tag}:level{k}:{how}", str(rec)[:300]))
    # the chain must reach the level where creation is refused (or its own end)
    last = res[-1] if res else {}
    exp_last = cfg["levels"] if not (m > 0) else min(m, cfg["levels"])
    if cfg["method"] == "fork":
        exp_last = min(exp_last, 1)
    if not [x for x in v if not x[0].startswith("vacuous:")] and last.get("level") != exp_last:
        v.append((f"C19:R:chain-short:{tag}", f"chain ended at level {last.get('level')}, "
                                             f"expected {exp_last}: {str(last)[:300]}"))
    return v


def run_all(tier, workers=8):
    cfgs = configs(tier)

    def one(cfg):
        return runner.run("chain", cfg, None, timeout=240, module="vf.real.c19scn",
                          env_extra={"LOKY_MAX_DEPTH": str(cfg["max_depth"])})
    with cf.ThreadPoolExecutor(workers) as tp:
        rs = list(tp.map(one, cfgs))
    viol = []
    samples = []
    levels = 0
    vacuous = []
    for i, (cfg, r) in enumerate(zip(cfgs, rs)):
        js = judge(cfg, r)
        if js and all(s.startswith("vacuous:") for s, _ in js):
            # the scenario did not get the second worker it wanted (timing): run it once more
            rs[i] = r = one(cfg)
            js = judge(cfg, r)
        for sig, msg in js:
            if sig.startswith("vacuous:"):
                vacuous.append(sig)
            else:
                viol.append((sig, msg, cfg))
        if isinstance(r["result"], list):
            levels += len(r["result"])
    if rs and isinstance(rs[-1]["result"], list):
        samples.append(dict(config=cfgs[-1], chain=rs[-1]["result"]))
    return dict(cases=len(cfgs), levels=levels, violations=viol, samples=samples, vacuous=vacuous,
                retried=sum(1 for r in rs if r.get("retried")))
