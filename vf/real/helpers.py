"""Importable task functions for the real-process scenarios (workers find them by reference)."""


def make_lambda(k):
    return lambda x: x + k
