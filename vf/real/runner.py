"""Engine R: runs a scenario on real processes in its own session (process group), with a
fault plan for the LOKY_VERIF hooks, a hard timeout that is the oracle for hangs, and clean-up
by process group only."""
import json
import os
import shutil
import signal
import subprocess
import sys
import tempfile
import time

from ..q import common

VERIF = os.path.dirname(os.path.dirname(os.path.dirname(os.path.abspath(__file__))))


def session_pids(sid, exclude_tracker=True):
    out = []
    for d in os.listdir("/proc"):
        if not d.isdigit():
            continue
        try:
            with open(f"/proc/{d}/stat") as f:
                st = f.read()
            fields = st.rsplit(")", 1)[1].split()
            if int(fields[3]) != sid or fields[0] == "Z":
                continue
            cmd = open(f"/proc/{d}/cmdline", "rb").read()
        except (OSError, IndexError, ValueError):
            continue
        is_tracker = b"resource_tracker" in cmd
        if exclude_tracker and is_tracker:
            continue
        out.append(int(d))
    return out


def run(scenario, args=None, plan=None, timeout=90, env_extra=None, module="vf.real.scenario",
        post=None, retry=None):
    """One real run.  A run that times out or yields no result although no fault was planned is
    repeated once (a slow machine must not read as a violation)."""
    if retry is None:
        retry = plan is None
    r = _run_once(scenario, args, plan, timeout, env_extra, module, post)
    if retry and (r["status"] != "ok" or r["result"] is None):
        r2 = _run_once(scenario, args, plan, timeout * 2, env_extra, module, post)
        r2["retried"] = True
        return r2
    return r


def _run_once(scenario, args=None, plan=None, timeout=90, env_extra=None,
              module="vf.real.scenario", post=None):
    tmp = tempfile.mkdtemp(prefix="vfR_")
    out = os.path.join(tmp, "out.json")
    env = dict(os.environ)
    env["PYTHONPATH"] = f"{common.REPO}:{VERIF}"
    env["LOKY_VERIF"] = "1"
    env["LOKY_VERIF_LOG"] = os.path.join(tmp, "hooks.log")
    env.pop("LOKY_VERIF_PLAN", None)
    if plan is not None:
        pf = os.path.join(tmp, "plan.json")
        with open(pf, "w") as f:
            json.dump(plan, f)
        env["LOKY_VERIF_PLAN"] = pf
    if env_extra:
        env.update(env_extra)
    t0 = time.time()
    # names that exist in the system-wide semaphore namespace before this run (other jobs,
    # earlier crashes): process ids are recycled, a stale "loky-<pid>-*" name of a dead
    # process may carry the pid this run is about to get
    try:
        with open(os.path.join(tmp, "pre_shm.txt"), "w") as f:
            f.write("\n".join(os.listdir("/dev/shm")))
    except OSError:
        pass
    log = open(os.path.join(tmp, "stdio.log"), "wb")
    p = subprocess.Popen([sys.executable, "-m", module, scenario, json.dumps(args or {}), out],
                         stdin=subprocess.DEVNULL, stdout=log, stderr=subprocess.STDOUT,
                         env=env, cwd=tmp, start_new_session=True)
    status = "ok"
    try:
        p.wait(timeout)
    except subprocess.TimeoutExpired:
        status = "timeout"
    extra = None
    if post is not None and status == "ok":
        try:
            extra = post(p.pid, tmp, out)
        except Exception as e:      # noqa
            extra = dict(post_error=repr(e))
    # clean up the whole session (workers, trackers) by process group
    try:
        os.killpg(p.pid, signal.SIGKILL)
    except OSError:
        pass
    try:
        p.wait(5)
    except Exception:
        pass
    log.close()
    res = None
    if os.path.exists(out):
        try:
            res = json.load(open(out))
        except Exception:
            res = None
    hooks = ""
    try:
        hooks = open(env["LOKY_VERIF_LOG"]).read()
    except OSError:
        pass
    stdio = open(os.path.join(tmp, "stdio.log"), "rb").read().decode(errors="replace")[-3000:]
    shutil.rmtree(tmp, ignore_errors=True)
    return dict(status=status, rc=p.returncode, result=res, hooks=hooks, stdio=stdio,
                wall=round(time.time() - t0, 2), tmp=tmp, post=extra)
