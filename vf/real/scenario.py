"""Scenarios executed in a fresh interpreter on real processes (engine R).
usage: python -m vf.real.scenario <name> <json args> <outfile>"""
import json
import os
import signal
import sys
import threading
import time


def _alive(pid):
    try:
        os.kill(pid, 0)
    except OSError:
        return False
    try:
        with open(f"/proc/{pid}/stat") as f:
            return f.read().split(")")[-1].split()[0] != "Z"
    except OSError:
        return False


def _zombie(pid):
    try:
        with open(f"/proc/{pid}/stat") as f:
            return f.read().split(")")[-1].split()[0] == "Z"
    except OSError:
        return False


def _summ(f, timeout):
    from concurrent.futures import TimeoutError as TE
    try:
        return ["val", repr(f.result(timeout=timeout))]
    except TE:
        return ["pending"]
    except BaseException as e:
        return ["exc", type(e).__name__, [k.__name__ for k in type(e).__mro__[1:4]], str(e)[:300]]


def nap(x, d=0.3):
    time.sleep(d)
    return x * x


def ident(x):
    return x


def with_timeout(fn, seconds):
    out = {}

    def run():
        try:
            out["r"] = fn()
        except BaseException as e:
            out["e"] = repr(e)
    t = threading.Thread(target=run, daemon=True)
    t.start()
    t.join(seconds)
    return (not t.is_alive()), out


def kill3(args):
    """2 workers, 3 tasks; whatever the plan injects; then a later submit and shutdown."""
    from loky.process_executor import ProcessPoolExecutor
    e = ProcessPoolExecutor(max_workers=args.get("max_workers", 2), timeout=args.get("timeout"))
    res = {}
    fs = [e.submit(nap, i, args.get("nap", 0.3)) for i in range(args.get("ntasks", 3))]
    pids = sorted(e._processes)
    res["futures"] = [_summ(f, args.get("wait", 6)) for f in fs]
    if args.get("timeout"):
        time.sleep(args.get("idle", 1.5))        # let the workers reach their idle timeout
    try:
        f = e.submit(ident, 7)
        res["late_submit"] = ["accepted"] + _summ(f, 6)
    except BaseException as ex:
        res["late_submit"] = ["exc", type(ex).__name__, [k.__name__ for k in type(ex).__mro__[1:4]]]
    br = e._flags.broken
    res["broken"] = None if br is None else [type(br).__name__, str(br)[:400]]
    ok, _ = with_timeout(lambda: e.shutdown(wait=True), args.get("shutdown_wait", 8))
    res["shutdown_returned"] = ok
    time.sleep(0.2)
    res["pids"] = pids
    res["alive"] = [p for p in pids if _alive(p)]
    res["zombies"] = [p for p in pids if _zombie(p)]
    res["threads"] = sorted(t.name for t in threading.enumerate()
                            if t is not threading.main_thread() and not t.name.startswith("Thread-"))
    return res


def announce_then_die(args):
    """F11: both workers busy once, then idle out; the plan kills one after it has sent its exit
    announcement while it still holds the result-queue write lock; then a new task."""
    from loky.process_executor import ProcessPoolExecutor
    e = ProcessPoolExecutor(max_workers=2, timeout=0.6)
    res = {}
    fs = [e.submit(nap, i, 0.4) for i in range(2)]
    res["first"] = [_summ(f, 10) for f in fs]
    time.sleep(2.0)                       # both workers time out and announce
    f = e.submit(ident, 5)
    res["after"] = _summ(f, 6)
    br = e._flags.broken
    res["broken"] = None if br is None else type(br).__name__
    res["pids_left"] = sorted(e._processes)
    return res


def die_in_shutdown(args):
    """F6 (write-lock variant): a worker dies holding the result-queue write lock while it
    announces its exit during a graceful shutdown."""
    from loky.process_executor import ProcessPoolExecutor
    e = ProcessPoolExecutor(max_workers=2, timeout=None)
    res = {}
    fs = [e.submit(nap, i, 0.4) for i in range(2)]
    res["first"] = [_summ(f, 10) for f in fs]
    ok, _ = with_timeout(lambda: e.shutdown(wait=True), 8)
    res["shutdown_returned"] = ok
    br = e._flags.broken
    res["broken"] = None if br is None else type(br).__name__
    return res


def pickler_at_submit(args):
    """C15: the pickler in force when a task is submitted is the one its worker uses, whatever
    the parent selects afterwards (immediately, or after the task was dispatched)."""
    from loky.process_executor import ProcessPoolExecutor
    from loky.backend.reduction import set_loky_pickler, get_loky_pickler_name
    e = ProcessPoolExecutor(1)
    e.submit(abs, -1).result(timeout=20)
    out = []
    for at_submit, later in (("cloudpickle", "pickle"), ("pickle", "cloudpickle"),
                             ("pickle", "pickle"), ("cloudpickle", "cloudpickle")):
        for gap in (0.0, 0.001, 0.2):
            set_loky_pickler(at_submit)
            f = e.submit(get_loky_pickler_name)
            if gap:
                time.sleep(gap)
            set_loky_pickler(later)
            out.append([at_submit, later, gap, f.result(timeout=20)])
    # ... and it is the pickler the RESULT travels with: a lambda built in the worker comes
    # back under cloudpickle and cannot be sent under plain pickle; workers whose own default
    # (LOKY_PICKLER in their environment) differs from the one of the submission included
    from vf.real.helpers import make_lambda
    results = []
    for worker_default in (None, "pickle", "cloudpickle"):
        e2 = ProcessPoolExecutor(1, env={"LOKY_PICKLER": worker_default} if worker_default else None)
        e2.submit(abs, -1).result(timeout=20)
        for at_submit in ("cloudpickle", "pickle", "cloudpickle", "pickle"):
            set_loky_pickler(at_submit)
            f = e2.submit(make_lambda, 3)
            try:
                r = f.result(timeout=20)
                kind = "value" if r(4) == 7 else "wrong-value"
            except BaseException as ex:     # noqa
                kind = type(ex).__name__
            results.append([worker_default, at_submit, kind])
        set_loky_pickler(None)
        e2.shutdown(wait=True)
    set_loky_pickler(None)
    e.shutdown(wait=True)
    return dict(cases=out, results=results)


SCENARIOS = dict(pickler_at_submit=pickler_at_submit, kill3=kill3, announce_then_die=announce_then_die, die_in_shutdown=die_in_shutdown)


def main():
    name, args, out = sys.argv[1], json.loads(sys.argv[2]), sys.argv[3]
    threading.Timer(float(args.get("watchdog", 60)), lambda: os._exit(97)).start()
    import warnings
    warnings.simplefilter("ignore")
    try:
        res = SCENARIOS[name](args)
    except BaseException as e:
        import traceback
        res = {"scenario_error": traceback.format_exc()[-1500:]}
    with open(out, "w") as f:
        json.dump(res, f)
    sys.stdout.flush()
    os._exit(0)


if __name__ == "__main__":
    main()
