"""Root process of a real loky process tree (engine R, C12 / C13 / C20).
usage: python -m vf.real.treescn <part> <json args> <outfile>"""
import gc
import glob
import json
import os
import signal
import sys
import threading
import time
import warnings


if os.environ.get("VF_IMPORT_TIME_LOCK"):
    from loky.backend import get_context as _gc
    _IMPORT_TIME_LOCK = _gc("loky").Lock()


def nap(x, d=0.2):
    time.sleep(d)
    return x


def crash(x):
    os.kill(os.getpid(), signal.SIGKILL)


def own_trackers():
    """Tracker processes that are children of this process."""
    out = []
    me = os.getpid()
    for d in os.listdir("/proc"):
        if d.isdigit():
            try:
                st = open(f"/proc/{d}/stat").read().rsplit(")", 1)[1].split()
                if int(st[1]) == me and st[0] != "Z" and \
                        b"loky.backend.resource_tracker" in open(f"/proc/{d}/cmdline", "rb").read():
                    out.append(int(d))
            except (OSError, IndexError, ValueError):
                pass
    return out


def tracker_info(depth=0):
    from loky.backend import resource_tracker as rt
    t = rt._resource_tracker
    return dict(pid=os.getpid(), tracker_pid=t._pid, tracker_fd=t._fd, depth=depth,
                own_trackers=own_trackers())


def nested_info(levels):
    """Runs in a worker: report its tracker, then nest one more executor."""
    from loky.process_executor import ProcessPoolExecutor
    import loky.process_executor as pe
    out = [tracker_info(pe._CURRENT_DEPTH)]
    # a tracked operation from this process
    from loky.backend.synchronize import Lock
    lk = Lock()
    del lk
    if levels > 0:
        e = ProcessPoolExecutor(max_workers=1)
        out += e.submit(nested_info, levels - 1).result(timeout=40)
        e.shutdown(wait=True)
    return out


# names left behind by an earlier, dead process that had the pid this process got (process
# ids are recycled; the namespace of a busy machine is full of such leftovers): not ours
_STALE = set(glob.glob(f"/dev/shm/sem.loky-{os.getpid()}-*"))


def own_sems():
    return sorted(x for x in glob.glob(f"/dev/shm/sem.loky-{os.getpid()}-*") if x not in _STALE)


def _settle():
    """Let asynchronous clean-up finish: feeder threads exit, dead children are reaped (what
    multiprocessing.active_children() is documented to do), cycles are collected."""
    import multiprocessing
    t0 = time.time()
    while time.time() - t0 < 3 and any(t.name == "QueueFeederThread" for t in threading.enumerate()):
        time.sleep(0.02)
    multiprocessing.active_children()
    gc.collect()


def _end(how, out, res):
    if res.get("released"):
        _settle()
    res["own_sems_before_end"] = own_sems()
    with open(out, "w") as f:
        json.dump(res, f)
    sys.stdout.flush()
    sys.stderr.flush()
    if how == "normal":
        sys.exit(0)
    if how == "exception":
        raise RuntimeError("uncaught exception ending")
    if how == "os_exit":
        os._exit(0)
    if how == "sigkill":
        os.kill(os.getpid(), signal.SIGKILL)
        time.sleep(10)


def _arm_kill(where, nth):
    """Crash point inside SemLock._cleanup: SIGKILL this process at the nth sem_unlink /
    tracker unregister performed by the synchronize module."""
    import importlib
    syn = importlib.import_module("loky.backend.synchronize")
    from loky.backend import resource_tracker as rt
    count = {"n": 0}

    def wrap(fn):
        def inner(*a, **k):
            count["n"] += 1
            if count["n"] == nth:
                os.kill(os.getpid(), signal.SIGKILL)
                time.sleep(10)
            return fn(*a, **k)
        return inner
    if where == "unlink":
        syn.sem_unlink = wrap(syn.sem_unlink)
    elif where == "register":
        rt.register = wrap(rt.register)
    else:
        rt.unregister = wrap(rt.unregister)


def part_sem(args, out):
    """C13: a history of executor/primitive creation, then an ending."""
    if args.get("verbose_tracker"):
        import loky.backend.resource_tracker as _rt
        _rt.VERBOSE = True      # the tracker logs every request it serves (diagnostics)
    from loky.process_executor import ProcessPoolExecutor
    if args["ending"].startswith("kill_at_"):
        where, nth = args["ending"][8:].split(":")
        with open(out, "w") as f:
            json.dump(dict(pid=os.getpid(), pids=[os.getpid()], armed=True), f)
        _arm_kill(where, int(nth))
    from loky import get_reusable_executor
    from loky.backend import get_context
    res = dict(pid=os.getpid(), pids=[os.getpid()])
    hist, how = args["history"], args["ending"]
    if hist == "executor-clean":
        e = ProcessPoolExecutor(2, timeout=args.get("timeout", 1))
        res["r"] = [e.submit(nap, i).result(timeout=20) for i in range(3)]
        res["pids"] += list(e._processes)
        e.shutdown(wait=True)
        del e
        gc.collect()
        res["released"] = True
    elif hist == "executor-live":
        e = ProcessPoolExecutor(2, timeout=args.get("timeout", 1))
        res["r"] = [e.submit(nap, i).result(timeout=20) for i in range(3)]
        res["pids"] += list(e._processes)
        res["released"] = False
        globals()["_keep"] = e
    elif hist == "reusable":
        e = get_reusable_executor(2, timeout=args.get("timeout", 1))
        res["r"] = [e.submit(nap, i).result(timeout=20) for i in range(3)]
        res["pids"] += list(e._processes)
        res["released"] = False
    elif hist == "broken":
        e = ProcessPoolExecutor(2, timeout=args.get("timeout", 1))
        res["pids"] += []
        f = e.submit(crash, 1)
        try:
            f.result(timeout=20)
        except BaseException as ex:
            res["r"] = type(ex).__name__
        e.shutdown(wait=True)
        del e, f
        gc.collect()
        res["released"] = True
    elif hist in ("initmain-killed", "initmain-broken"):
        # workers that re-import the main module (loky_init_main) and create a lock while doing
        # so (VF_IMPORT_TIME_LOCK is set by the judge); they end by kill_workers / a crash
        ctx = get_context("loky_init_main")
        e = ProcessPoolExecutor(2, context=ctx, timeout=30)
        res["r"] = [e.submit(nap, i).result(timeout=30) for i in range(4)]
        res["pids"] += list(e._processes)
        if hist == "initmain-killed":
            e.shutdown(wait=True, kill_workers=True)
        else:
            f = e.submit(crash, 1)
            try:
                f.result(timeout=20)
            except BaseException as ex:     # noqa
                res["broken"] = type(ex).__name__
            e.shutdown(wait=True)
            del f
        del e
        gc.collect()
        # the killed workers' own locks are not "properly released": a leak report about them
        # is legitimate, the namespace must still be restored
        res["released"] = False
    elif hist == "collision":
        # creations that collide with the name of a living semaphore of this very process: an
        # explicit name given twice, and the retry loop of SemLock.__init__ drawing a taken name
        import importlib
        syn = importlib.import_module("loky.backend.synchronize")
        first = syn.Lock()
        taken = first._semlock.name
        try:
            syn.SemLock(1, 1, 1, name=taken)
            res["explicit"] = "created"
        except FileExistsError:
            res["explicit"] = "FileExistsError"
        orig = syn.SemLock._make_name
        seq = iter([taken, taken])
        syn.SemLock._make_name = staticmethod(lambda: next(seq, None) or orig())
        second = syn.Lock()
        syn.SemLock._make_name = staticmethod(orig)
        third = syn.Semaphore(2)
        # a legal explicit name containing the separator of the tracker protocol
        odd = syn.SemLock(1, 1, 1, name=f"/loky-{os.getpid()}-odd:name:x")
        res["r"] = [first.acquire(), second.acquire(), third.acquire(), odd.acquire()]
        res["names"] = [taken, second._semlock.name, third._semlock.name, odd._semlock.name]
        if args.get("release", True) and how == "normal":
            del first, second, third, odd
            gc.collect()
            res["released"] = True
        else:
            globals()["_keep"] = (first, second, third, odd)
            res["released"] = False
    elif hist == "primitives":
        ctx = get_context("loky")
        objs = [ctx.Lock(), ctx.RLock(), ctx.Semaphore(2), ctx.BoundedSemaphore(2),
                ctx.Condition(), ctx.Event(), ctx.Queue(3), ctx.SimpleQueue()]
        objs[6].put(1)
        res["r"] = objs[6].get(timeout=5)
        res["n_sems_live"] = len(own_sems())
        if args.get("release", True):
            objs[6].close()
            objs[6].join_thread()
            del objs
            gc.collect()
            res["released"] = True
        else:
            globals()["_keep"] = objs
            res["released"] = False
    _end(how, out, res)


def part_tracker(args, out):
    """C12: one tracker for the whole tree, signals ignored, self-healing."""
    from loky.process_executor import ProcessPoolExecutor
    from loky.backend import resource_tracker as rt
    from loky.backend.synchronize import Lock
    res = {}
    ctxname = args.get("context", "loky")
    from loky.backend import get_context
    e = ProcessPoolExecutor(max_workers=2, context=get_context(ctxname))
    res["root"] = tracker_info(0)
    res["tree"] = e.submit(nested_info, args.get("levels", 1)).result(timeout=60)
    res["root_after"] = tracker_info(0)
    tp = rt._resource_tracker._pid
    # signals never terminate it
    sig = {}
    for s in (signal.SIGINT, signal.SIGTERM):
        os.kill(tp, s)
        time.sleep(0.3)
        try:
            os.kill(tp, 0)
            sig[int(s)] = "alive"
        except OSError:
            sig[int(s)] = "dead"
    res["signals"] = sig
    # repeated tracker deaths: the next tracked operation starts a new one
    heals = []
    nfd0 = len(os.listdir("/proc/self/fd"))
    for k in range(args.get("deaths", 2)):
        old = rt._resource_tracker._pid
        os.kill(old, signal.SIGKILL)
        time.sleep(0.3)
        with warnings.catch_warnings(record=True) as w:
            warnings.simplefilter("always")
            try:
                lk = Lock()
                ok = True
                del lk
            except BaseException as ex:
                ok = repr(ex)
        new = rt._resource_tracker._pid
        try:
            with open(f"/proc/{old}/stat") as f:
                zombie = f.read().split(")")[-1].split()[0] == "Z"
        except OSError:
            zombie = False
        heals.append(dict(ok=ok, old=old, new=new, warned=any("died unexpectedly" in str(x.message) for x in w),
                          old_zombie=zombie))
    res["heals"] = heals
    res["fd_growth"] = len(os.listdir("/proc/self/fd")) - nfd0
    # workers still work with the new tracker around
    res["after"] = e.submit(nap, 5).result(timeout=20)
    e.shutdown(wait=True)
    with open(out, "w") as f:
        json.dump(res, f)
    os._exit(0)


def part_startup_signals(args, out):
    """C12: SIGINT / SIGTERM delivered while the tracker is at a named point of its start-up
    (the plan pauses it there) never terminate it, and it works afterwards."""
    from loky.backend import resource_tracker as rt
    tok = args["token"]
    rt.ensure_running()
    tp = rt._resource_tracker._pid
    t0 = time.time()
    while not os.path.exists(tok + ".reached") and time.time() - t0 < 20:
        time.sleep(0.01)
    reached = os.path.exists(tok + ".reached")
    for s_ in (signal.SIGINT, signal.SIGTERM):
        os.kill(tp, s_)
    time.sleep(0.3)
    open(tok + ".go", "w").close()
    time.sleep(0.7)
    try:
        os.kill(tp, 0)
        alive = True
    except OSError:
        alive = False
    try:
        zombie = open(f"/proc/{tp}/stat").read().split(")")[-1].split()[0] == "Z"
    except OSError:
        zombie = False
    # still serving: a counted file is destroyed at the request that brings it to zero
    path = args["scratch"]
    open(path, "w").write("x")
    works = None
    if alive and not zombie:
        rt.register(path, "file")
        rt.maybe_unlink(path, "file")
        t0 = time.time()
        while os.path.exists(path) and time.time() - t0 < 5:
            time.sleep(0.05)
        works = not os.path.exists(path)
    with open(out, "w") as f:
        json.dump(dict(reached=reached, alive=alive and not zombie, works=works,
                       same_tracker=rt._resource_tracker._pid == tp), f)
    os._exit(0)


def child_sleeper(path, d):
    time.sleep(d)


def part_eol(args, out):
    """C12: end-of-life cleanup happens after, and only after, the last process is gone."""
    from loky.backend import get_context, resource_tracker as rt
    ctx = get_context("loky")
    path = args["scratch"]
    open(path, "w").write("x")
    rt.register(path, "file")
    p = ctx.Process(target=child_sleeper, args=(path, args.get("child_lives", 2.5)))
    p.start()
    res = dict(pid=os.getpid(), child=p.pid, tracker=rt._resource_tracker._pid, t0=time.time())
    with open(out, "w") as f:
        json.dump(res, f)
    how = args.get("ending", "sigkill")
    if how == "sigkill":
        os.kill(os.getpid(), signal.SIGKILL)
    os._exit(0)


def _lifecycle(kind):
    from loky.process_executor import ProcessPoolExecutor
    from loky import get_reusable_executor
    if kind == "plain-clean":
        e = ProcessPoolExecutor(2)
        assert list(e.map(abs, [-1, -2])) == [1, 2]
        e.shutdown(wait=True)
    elif kind == "plain-kill":
        e = ProcessPoolExecutor(2)
        f = e.submit(time.sleep, 30)
        time.sleep(0.2)
        e.shutdown(wait=True, kill_workers=True)
    elif kind == "plain-broken":
        e = ProcessPoolExecutor(2)
        try:
            e.submit(crash, 1).result(timeout=20)
        except BaseException:
            pass
        e.shutdown(wait=True)
    elif kind == "plain-timeout":
        e = ProcessPoolExecutor(2, timeout=0.3)
        assert e.submit(abs, -1).result(timeout=20) == 1
        time.sleep(1.0)
        assert e.submit(abs, -2).result(timeout=20) == 2
        e.shutdown(wait=True)
    elif kind == "reusable-clean":
        e = get_reusable_executor(2, timeout=5)
        assert e.submit(abs, -1).result(timeout=20) == 1
        e.shutdown(wait=True)
    elif kind == "reusable-resized":
        e = get_reusable_executor(2, timeout=5)
        assert e.submit(abs, -1).result(timeout=20) == 1
        e = get_reusable_executor(3, timeout=5)
        assert e.submit(abs, -1).result(timeout=20) == 1
        e = get_reusable_executor(1, timeout=5)
        e.shutdown(wait=True)
    elif kind == "reusable-broken-replaced":
        e = get_reusable_executor(2, timeout=5)
        try:
            e.submit(crash, 1).result(timeout=20)
        except BaseException:
            pass
        e = get_reusable_executor(2, timeout=5)
        assert e.submit(abs, -1).result(timeout=20) == 1
        e.shutdown(wait=True)
    del e


def _account():
    import multiprocessing
    _settle()
    time.sleep(0.2)
    _settle()
    pid = os.getpid()
    fds = sorted(os.listdir("/proc/self/fd"))
    kids = []
    for d in os.listdir("/proc"):
        if d.isdigit():
            try:
                st = open(f"/proc/{d}/stat").read().rsplit(")", 1)[1].split()
                if int(st[1]) == pid:
                    cmd = open(f"/proc/{d}/cmdline", "rb").read()
                    if b"resource_tracker" not in cmd:
                        kids.append((int(d), st[0]))
            except (OSError, IndexError, ValueError):
                pass
    return dict(fds=len(fds), threads=sorted(t.name for t in threading.enumerate()),
                children=kids, sems=len(own_sems()))


def part_life(args, out):
    """C20: a sequence of lifecycles run once, then twice more; counts must not grow."""
    seq = args["sequence"]
    # warm-up: whatever is started on first use (trackers, contexts) is excluded
    _lifecycle("plain-clean")
    base = _account()
    for k in seq:
        _lifecycle(k)
    a1 = _account()
    for _ in range(2):
        for k in seq:
            _lifecycle(k)
    a3 = _account()
    with open(out, "w") as f:
        json.dump(dict(base=base, once=a1, thrice=a3), f)
    os._exit(0)


def child_report(path):
    """Runs in a freshly started loky process: one tracked operation, then who is my tracker."""
    import warnings
    rep = dict(pid=os.getpid())
    with warnings.catch_warnings(record=True) as w:
        warnings.simplefilter("always")
        try:
            from loky.backend.synchronize import Lock
            lk = Lock()
            del lk
            rep["ok"] = True
        except BaseException as ex:     # noqa
            rep["ok"] = repr(ex)
    rep["warned"] = [str(x.message)[:80] for x in w]
    rep.update(tracker_info(1))
    if path is None:
        return rep
    with open(path, "w") as f:
        json.dump(rep, f)


def part_healop(args, out):
    """C12: the tracker is killed; the FIRST tracked operation afterwards is of a given kind
    (a lock, a bare register, getfd, starting a loky process, an executor spawning a worker),
    with or without free descriptor numbers below the tracker's fd."""
    import warnings
    from loky.backend import resource_tracker as rt
    from loky.backend import get_context
    from loky.backend.synchronize import Lock
    ctx = get_context(args.get("context", "loky"))
    rt.ensure_running()
    old, old_fd = rt._resource_tracker._pid, rt._resource_tracker._fd
    keep = []
    if args.get("fill"):
        # an application that opened files meanwhile: no free number below the tracker's fd
        for _ in range(12):
            keep.append(os.open("/dev/null", os.O_RDONLY))
    os.kill(old, signal.SIGKILL)
    t0 = time.time()
    while time.time() - t0 < 5:
        try:
            if open(f"/proc/{old}/stat").read().split(")")[-1].split()[0] == "Z":
                break
        except OSError:
            break
        time.sleep(0.02)
    res = dict(old=old, old_fd=old_fd, op=args["op"])
    child = None
    tmp = out + ".child"
    with warnings.catch_warnings(record=True) as w:
        warnings.simplefilter("always")
        try:
            op = args["op"]
            if op == "lock":
                lk = Lock()
                del lk
            elif op == "register":
                rt.register(tmp + ".scratch", "file")
                rt.unregister(tmp + ".scratch", "file")
            elif op == "getfd":
                res["fd"] = rt.getfd()
                os.write(res["fd"], b"PROBE:0:noop\n")
            elif op == "process":
                p = ctx.Process(target=child_report, args=(tmp,))
                p.start()
                p.join(60)
                res["child_exit"] = p.exitcode
                child = json.load(open(tmp)) if os.path.exists(tmp) else None
            elif op == "executor":
                from loky.process_executor import ProcessPoolExecutor
                e = ProcessPoolExecutor(1, context=ctx)
                child = e.submit(child_report, None).result(timeout=60)
                e.shutdown(wait=True)
            res["ok"] = True
        except BaseException as ex:     # noqa
            res["ok"] = repr(ex)
    res["warned"] = [str(x.message)[:80] for x in w]
    res["new"] = rt._resource_tracker._pid
    res["new_fd"] = rt._resource_tracker._fd
    res["child"] = child
    res["own_trackers"] = own_trackers()
    for fd in keep:
        os.close(fd)
    with open(out, "w") as f:
        json.dump(res, f)
    os._exit(0)


def main():
    part, args, out = sys.argv[1], json.loads(sys.argv[2]), sys.argv[3]
    wd = threading.Timer(float(args.get("watchdog", 120)), lambda: os._exit(97))
    wd.daemon = True
    wd.start()
    dict(sem=part_sem, tracker=part_tracker, eol=part_eol, life=part_life,
         startup=part_startup_signals, healop=part_healop)[part](args, out)


if __name__ == "__main__":
    main()
