"""Judges for the real process-tree scenarios (C12, C13)."""
import concurrent.futures as cf
import glob
import json
import os
import signal
import tempfile
import time

from . import runner


def _sems(pids):
    out = []
    for p in pids:
        out += glob.glob(f"/dev/shm/sem.loky-{p}-*")
    return sorted(out)


def sem_post(sid, tmp, out):
    """After the root ended: end the tree (workers), keep the tracker, wait for its cleanup."""
    try:
        res = json.load(open(out))
    except Exception:
        res = {}
    pids = set(res.get("pids", [])) | {sid}
    t0 = time.time()
    try:
        stale = {"/dev/shm/" + n for n in open(os.path.join(tmp, "pre_shm.txt")).read().split("\n")}
    except OSError:
        stale = set()
    lingering = runner.session_pids(sid)
    before = [x for x in _sems(pids | set(lingering)) if x not in stale]
    for p in lingering:
        try:
            os.kill(p, signal.SIGKILL)
        except OSError:
            pass
    pids |= set(lingering)
    # only names that existed when the root ended are this tree's: process ids are recycled
    # quickly on a busy machine (pid_max 32768) and a foreign process that inherits one of
    # these pids creates "loky-<pid>-*" names of its own afterwards
    ours = set(before)
    foreign = set()
    left = [x for x in _sems(pids) if x in ours]
    while left and time.time() - t0 < 12:
        time.sleep(0.1)
        now = _sems(pids)
        foreign |= set(now) - ours
        left = [x for x in now if x in ours]
    diag = None
    if left:
        # who is still there (a process that keeps the tracker's pipe open delays its sweep)
        diag = []
        for p in runner.session_pids(sid, exclude_tracker=False):
            try:
                cmd = open(f"/proc/{p}/cmdline", "rb").read().replace(b"\0", b" ").decode()[:160]
                st = open(f"/proc/{p}/stat").read().rsplit(")", 1)[1].split()[0]
                fds = len(os.listdir(f"/proc/{p}/fd"))
            except OSError:
                continue
            diag.append(dict(pid=p, state=st, cmd=cmd, nfds=fds))
    return dict(sems_at_root_exit=before, left=left, cleaned_after=round(time.time() - t0, 2),
                lingering=len(lingering), still_in_session=diag, foreign_names=len(foreign))


def c13_cases(tier):
    hs = ["executor-clean", "executor-live", "reusable", "broken", "primitives", "collision"]
    ends = ["normal", "exception", "sigkill"] + (["os_exit"] if tier != "quick" else [])
    cases = [dict(history=h, ending=e) for h in hs for e in ends]
    for where in ("unlink", "unregister", "register"):
        for nth in ((1, 3) if tier == "quick" else (1, 2, 3, 5, 8)):
            cases.append(dict(history="primitives", ending=f"kill_at_{where}:{nth}"))
            if nth == 1:
                cases.append(dict(history="executor-clean", ending=f"kill_at_{where}:{nth}"))
    for h in ("initmain-killed", "initmain-broken"):
        for e in ("normal", "sigkill"):
            cases.append(dict(history=h, ending=e, import_lock=True))
    cases.append(dict(history="primitives", ending="sigkill", release=False))
    cases.append(dict(history="primitives", ending="sigkill", release=False, werror=True))
    cases.append(dict(history="executor-live", ending="sigkill", werror=True))
    cases.append(dict(history="primitives", ending="normal", release=False))
    return cases


def run_c13(tier, nproc=6):
    cases = c13_cases(tier)
    with cf.ThreadPoolExecutor(nproc) as tp:
        rs = list(tp.map(lambda c: runner.run(
            "sem", dict(c, watchdog=60), None, timeout=80, module="vf.real.treescn", post=sem_post,
            env_extra=({"PYTHONWARNINGS": "error::UserWarning"} if c.get("werror") else
                       {"VF_IMPORT_TIME_LOCK": "1"} if c.get("import_lock") else None)), cases))
    viol = []
    samples = []
    for c, r in zip(cases, rs):
        tag = f"{c['history']}:{c['ending']}" + (":unreleased" if c.get("release") is False else "") \
            + (":Werror" if c.get("werror") else "")
        res, post = r["result"], r["post"]
        if c["ending"].startswith("kill_at_") and r["status"] == "ok" and post and "left" in post:
            if r["rc"] != -9:
                viol.append((f"C13:R:scenario-failed:{tag}", f"crash point never reached rc={r['rc']}", c))
            elif post["left"]:
                viol.append((f"C13:R:sem-outlives-tree:{tag}",
                             f"{len(post['left'])} named semaphores left after a death "
                             + ("between the creation of a semaphore and its registration"
                                if "register:" in c["ending"] and "unregister" not in c["ending"]
                                else "inside the cleanup of a semaphore")
                             + f": {post['left'][:4]}", c))
            continue
        if r["status"] != "ok" or res is None or post is None or "post_error" in (post or {}):
            viol.append((f"C13:R:scenario-failed:{tag}", f"{r['status']} rc={r['rc']} {res} {post} "
                                                         f"{r['stdio'][-400:]}", c))
            continue
        if post["left"]:
            viol.append((f"C13:R:sem-outlives-tree:{tag}",
                         f"{len(post['left'])} named semaphores still exist "
                         f"{post['cleaned_after']} s after the tree ended: {post['left'][:4]}", c))
        if res.get("released") and res.get("own_sems_before_end"):
            viol.append((f"C13:R:not-unlinked-on-collection:{c['history']}",
                         f"objects were released and collected but their semaphores are still "
                         f"linked: {res['own_sems_before_end'][:4]}", c))
        if res.get("released") and c["ending"] == "normal" and "leaked" in r["stdio"]:
            viol.append((f"C13:R:false-leak-report:{c['history']}",
                         f"tracker reports leaked resources although everything was released: "
                         f"{[l for l in r['stdio'].splitlines() if 'leaked' in l][:2]}", c))
        if len(samples) < 4:
            samples.append(dict(case=c, sems_at_root_exit=len(post["sems_at_root_exit"]),
                                cleaned_after_s=post["cleaned_after"]))
    return dict(cases=len(cases), violations=viol, samples=samples)


# ---- C12 ------------------------------------------------------------------------------------
def eol_post_factory(scratch, child_lives):
    def post(sid, tmp, out):
        res = json.load(open(out))
        obs = []
        t0 = time.time()
        child = res["child"]
        # while the child lives the file must stay
        while time.time() - t0 < child_lives + 8:
            alive = os.path.exists(f"/proc/{child}") and \
                open(f"/proc/{child}/stat").read().split(")")[-1].split()[0] != "Z"
            exists = os.path.exists(scratch)
            obs.append((round(time.time() - t0, 2), alive, exists))
            if not alive and not exists:
                break
            time.sleep(0.1)
        early = [o for o in obs if o[1] and not o[2]]
        final = obs[-1]
        return dict(removed_while_child_alive=bool(early), removed_at_end=not final[2],
                    child_dead_at_end=not final[1], waited=final[0])
    return post


def run_c12(tier):
    viol = []
    samples = []
    cases = 0
    jobs = []
    for ctxname in ("loky", "loky_init_main"):
        for levels in ((1,) if tier == "quick" else (0, 1, 2)):
            jobs.append(("tracker", dict(context=ctxname, levels=levels, deaths=2 if tier == "quick" else 3,
                                         watchdog=150)))
    with cf.ThreadPoolExecutor(4) as tp:
        rs = list(tp.map(lambda j: runner.run(j[0], j[1], None, timeout=170,
                                              module="vf.real.treescn",
                                              env_extra={"VF_IMPORT_TIME_LOCK": "1"}), jobs))
    for (part, a), r in zip(jobs, rs):
        cases += 1
        tag = f"{a['context']}:levels{a['levels']}"
        res = r["result"]
        if r["status"] != "ok" or not res:
            viol.append((f"C12:R:scenario-failed:{tag}", f"{r['status']} rc={r['rc']} {r['stdio'][-600:]}", a))
            continue
        tps = {res["root"]["tracker_pid"]} | {t["tracker_pid"] for t in res["tree"]}
        depths = [t["depth"] for t in res["tree"]]
        if len(tps) != 1 or None in tps:
            viol.append((f"C12:R:several-trackers:{tag}",
                         f"processes of one tree report trackers {tps}: root {res['root']} "
                         f"tree {res['tree']}", a))
        private = [(t["depth"], t["own_trackers"]) for t in res["tree"] if t.get("own_trackers")]
        if private or len(res["root"].get("own_trackers", [])) != 1:
            viol.append((f"C12:R:private-tracker:{tag}",
                         f"non-root members started their own tracker (depth, pids): {private}; "
                         f"root owns {res['root'].get('own_trackers')}", a))
        if depths != list(range(1, a["levels"] + 2)):
            viol.append((f"C12:R:tree-shape:{tag}", f"depths {depths}", a))
        if any(v != "alive" for v in res["signals"].values()):
            viol.append((f"C12:R:signal-kills-tracker:{tag}", f"{res['signals']}", a))
        for i, h in enumerate(res["heals"]):
            if h["ok"] is not True or h["new"] in (None, h["old"]):
                viol.append((f"C12:R:no-self-heal:{tag}", f"death #{i}: {h}", a))
            if not h["warned"]:
                viol.append((f"C12:R:heal-without-warning:{tag}", f"death #{i}: {h}", a))
            if h["old_zombie"]:
                viol.append((f"C12:R:tracker-zombie:{tag}", f"death #{i}: {h}", a))
        if res["fd_growth"] > 0:
            viol.append((f"C12:R:fd-leak-on-relaunch:{tag}", f"fd growth {res['fd_growth']} "
                                                             f"after {len(res['heals'])} relaunches", a))
        if res.get("after") != 5:
            viol.append((f"C12:R:pool-unusable-after-heal:{tag}", f"{res.get('after')}", a))
        if len(samples) < 3:
            samples.append(dict(case=a, tracker_pids=sorted(tps), heals=res["heals"]))
    # the first tracked operation after a tracker death, by kind x descriptor layout
    hjobs = [dict(op=op, fill=fill, context=ctxname, watchdog=100)
             for op in ("lock", "register", "getfd", "process", "executor")
             for fill in (False, True)
             for ctxname in (("loky",) if tier == "quick" else ("loky", "loky_init_main"))]
    with cf.ThreadPoolExecutor(5) as tp:
        hrs = list(tp.map(lambda a: runner.run("healop", a, None, timeout=120,
                                               module="vf.real.treescn"), hjobs))
    for a, r in zip(hjobs, hrs):
        cases += 1
        tag = f"{a['op']}:{'filled' if a['fill'] else 'sparse'}:{a['context']}"
        res = r["result"]
        if r["status"] != "ok" or not res:
            viol.append((f"C12:R:scenario-failed:healop:{tag}", f"{r['status']} rc={r['rc']} {r['stdio'][-500:]}", a))
            continue
        if res["ok"] is not True or res["new"] in (None, res["old"]):
            viol.append((f"C12:R:no-self-heal:{tag}", f"first tracked operation after the death: {res}", a))
            continue
        if len(res["own_trackers"]) != 1 or res["own_trackers"][0] != res["new"]:
            viol.append((f"C12:R:tracker-count-after-heal:{tag}", f"{res}", a))
        ch = res.get("child")
        if a["op"] in ("process", "executor"):
            if not ch or ch.get("ok") is not True:
                viol.append((f"C12:R:child-tracked-op-fails-after-heal:{tag}",
                             f"the process started as first tracked operation after the death "
                             f"cannot use the tracker: child={ch} parent={res}", a))
            elif ch["tracker_pid"] != res["new"] or ch.get("own_trackers") or ch.get("warned"):
                viol.append((f"C12:R:child-not-on-the-tree-tracker:{tag}",
                             f"child reports tracker {ch['tracker_pid']} (own: {ch.get('own_trackers')}, "
                             f"warnings {ch.get('warned')}), the root relaunched {res['new']}", a))
    # signals during the tracker's start-up
    for label in ("tracker.start", "tracker.sig_ignored", "tracker.unblocked"):
        cases += 1
        d = tempfile.mkdtemp(prefix="vfsig_")
        tok = os.path.join(d, "tok")
        r = runner.run("startup", dict(token=tok, scratch=os.path.join(d, "scratch.txt"), watchdog=60),
                       [dict(label=label, process="tracker", nth=1, action="pause:" + tok)],
                       timeout=80, module="vf.real.treescn")
        res = r["result"]
        if r["status"] != "ok" or not res:
            viol.append((f"C12:R:scenario-failed:startup:{label}", f"{r['status']} {r['stdio'][-400:]}", label))
        else:
            if not res["reached"]:
                viol.append((f"C12:R:scenario-failed:startup-not-reached:{label}", f"{res}", label))
            if not res["alive"]:
                viol.append((f"C12:R:signal-kills-tracker-at:{label}", f"{res}", label))
            elif not res["works"]:
                viol.append((f"C12:R:tracker-deaf-after-signal-at:{label}", f"{res}", label))
            samples.append(dict(case=f"startup:{label}", observed=res))
        import shutil
        shutil.rmtree(d, ignore_errors=True)
    # end-of-life ordering
    for ending in ("sigkill", "exit"):
        cases += 1
        d = tempfile.mkdtemp(prefix="vfeol_")
        scratch = os.path.join(d, "scratch.txt")
        r = runner.run("eol", dict(scratch=scratch, ending=ending, child_lives=2.0), None, timeout=60,
                       module="vf.real.treescn", post=eol_post_factory(scratch, 2.0))
        post = r["post"]
        if r["status"] != "ok" or not post or "post_error" in post:
            viol.append((f"C12:R:scenario-failed:eol:{ending}", f"{r['status']} {post} {r['stdio'][-400:]}", ending))
        else:
            if post["removed_while_child_alive"]:
                viol.append((f"C12:R:cleanup-before-last-process:{ending}", f"{post}", ending))
            if not post["removed_at_end"]:
                viol.append((f"C12:R:no-cleanup-after-last-process:{ending}", f"{post}", ending))
            samples.append(dict(case=f"eol:{ending}", observed=post))
        try:
            os.remove(scratch)
        except OSError:
            pass
        try:
            os.rmdir(d)
        except OSError:
            pass
    return dict(cases=cases, violations=viol, samples=samples)


# ---- C20 -------------------------------------------------------------------------------------
KINDS = ["plain-clean", "plain-kill", "plain-broken", "plain-timeout", "reusable-clean",
         "reusable-resized", "reusable-broken-replaced"]


def run_c20(tier, nproc=6):
    import itertools
    seqs = [[k] for k in KINDS]
    pairs = list(itertools.permutations(KINDS, 2))
    if tier == "quick":
        pairs = [p for i, p in enumerate(pairs) if i % 5 == 0]
    seqs += [list(p) for p in pairs]
    with cf.ThreadPoolExecutor(nproc) as tp:
        rs = list(tp.map(lambda sq: runner.run("life", dict(sequence=sq, watchdog=170), None,
                                               timeout=190, module="vf.real.treescn"), seqs))
    viol = []
    samples = []
    for sq, r in zip(seqs, rs):
        tag = "+".join(sq)
        res = r["result"]
        if r["status"] != "ok" or not res:
            viol.append((f"C20:R:scenario-failed:{tag}", f"{r['status']} rc={r['rc']} {r['stdio'][-500:]}", sq))
            continue
        a, b = res["once"], res["thrice"]
        if b["fds"] > a["fds"]:
            viol.append((f"C20:R:fds-accumulate:{tag}", f"open descriptors {a['fds']} after one pass, "
                                                        f"{b['fds']} after three", sq))
        if len(b["threads"]) > len(a["threads"]):
            viol.append((f"C20:R:threads-accumulate:{tag}", f"{a['threads']} -> {b['threads']}", sq))
        if len(b["children"]) > len(a["children"]):
            viol.append((f"C20:R:children-accumulate:{tag}", f"{a['children']} -> {b['children']}", sq))
        if b["sems"] > a["sems"]:
            viol.append((f"C20:R:sems-accumulate:{tag}", f"{a['sems']} -> {b['sems']}", sq))
        if len(samples) < 3:
            samples.append(dict(sequence=sq, once=a, thrice=b))
    return dict(cases=len(seqs), violations=viol, samples=samples)
