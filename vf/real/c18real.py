"""Judges the C18 real-process scenario parts."""
import concurrent.futures as cf

from . import runner


def run_all(tier):
    parts = [("fds", {}), ("env", {}), ("exit", {"quick": tier == "quick"}), ("main", {}),
             ("envseq", {})]
    with cf.ThreadPoolExecutor(4) as tp:
        rs = list(tp.map(lambda pa: runner.run(pa[0], pa[1], None, timeout=300,
                                               module="vf.real.c18scn"), parts))
    viol = []
    samples = []
    breakdown = {}
    cases = 0
    for (part, _), r in zip(parts, rs):
        res = r["result"]
        if r["status"] != "ok" or res is None or isinstance(res, dict):
            viol.append((f"C18:R:{part}:scenario-failed", f"{r['status']} {res} {r['stdio'][-500:]}", part))
            continue
        breakdown[part] = len(res)
        cases += len(res)
        if part == "fds":
            for c in res:
                if c["child"] is None or c["exitcode"] != 0:
                    viol.append(("C18:R:fds:child-failed", str(c)[:300], c["subset"]))
                    continue
                leaked = [t for t in c["parent_extra"].values() if t in c["child"].values()]
                if leaked:
                    viol.append((f"C18:R:fds:inherited:{'+'.join(c['subset'])}:inh={c['inheritable']}",
                                 f"child sees parent descriptors {leaked}; child fds: {c['child']}",
                                 c["subset"]))
                high = [n for n in c["child"] if int(n) >= 100]
                if high:
                    viol.append(("C18:R:fds:high-fd-open", f"{high} in {c['child']}", c["subset"]))
            samples.append(dict(part="fds", example=dict(subset=res[-1]["subset"],
                                                         child_fds=sorted(res[-1]["child"] or {}))))
        elif part == "env":
            for c in res:
                exp = dict(c["parent"])
                exp.update(c["overlay"] or {})
                for where in ("child", "at_startup"):
                    got = c[where]
                    if got is None:
                        viol.append((f"C18:R:env:{where}-missing", str(c)[:300], c["overlay"]))
                        continue
                    bad = {k: (got.get(k), exp.get(k)) for k in exp if got.get(k) != exp.get(k)}
                    if bad:
                        viol.append((f"C18:R:env:{where}-differs:{'+'.join(sorted(bad))}",
                                     f"overlay {c['overlay']}: child {where} has {bad} (got, expected)",
                                     c["overlay"]))
            samples.append(dict(part="env", example=res[-1]))
        elif part == "exit":
            for c in res:
                if c["how"].startswith("concurrent-"):
                    exp = c["arg"] if c["how"].endswith("exit") else -c["arg"]
                    bad = {k: v for k, v in c["seen"].items() if v not in (None, exp)}
                    if c["exitcode"] != exp or bad:
                        viol.append((f"C18:R:exit:concurrent-reap:{c['how']}",
                                     f"two threads joining the same child ({c['how']} {c['arg']}): "
                                     f"final exitcode {c['exitcode']}, seen {c['seen']}, expected {exp}",
                                     [c["how"], c["arg"]]))
                    continue
                if c["how"] == "exit":
                    exp = c["arg"]
                elif c["how"] == "signal":
                    exp = -c["arg"]
                elif c["how"] in ("sysexit-str", "raise"):
                    exp = 1
                elif c["how"] == "return":
                    exp = 0
                else:
                    if c["exitcode"] is not None or not c["alive"] or c["sentinel_ready"]:
                        viol.append(("C18:R:exit:live-process-misreported", str(c), c["how"]))
                    continue
                if c["exitcode"] != exp:
                    viol.append((f"C18:R:exit:wrong-exitcode:{c['how']}",
                                 f"{c['how']} {c['arg']}: exitcode {c['exitcode']} expected {exp}",
                                 [c["how"], c["arg"]]))
                if not c["sentinel_ready"] or c["alive"]:
                    viol.append((f"C18:R:exit:sentinel", str(c), [c["how"], c["arg"]]))
        elif part == "envseq":
            for c in res:
                if c["error"] or len(c["seen"]) != 2 or None in c["seen"]:
                    viol.append((f"C18:R:envseq:scenario-failed:{c['how']}", str(c)[:400], c["how"]))
                    continue
                for i, (got, par) in enumerate(zip(c["seen"], c["parents"])):
                    exp = dict(par)
                    exp["VF_OVER"] = "overlay"
                    bad = {k: (got.get(k), exp.get(k)) for k in exp if got.get(k) != exp.get(k)}
                    if bad:
                        viol.append((f"C18:R:envseq:stale-environment:{c['how']}:spawn{i + 1}",
                                     f"{c['how']}: the worker of spawn #{i + 1} sees {bad} (got, "
                                     f"expected = parent environment at its spawn overlaid with "
                                     f"env=)", c["how"]))
                if c["overlay_after"] != {"VF_OVER": "overlay"}:
                    viol.append((f"C18:R:envseq:env-mapping-modified:{c['how']}",
                                 f"the env= mapping given by the user now has "
                                 f"{len(c['overlay_after'])} keys", c["how"]))
            samples.append(dict(part="envseq", example=res[0]))
        elif part == "main":
            for c in res:
                names = [l.split()[1] for l in c["lines"]]
                tag = f"{c.get('launch', 'script')}:{c['method']}"
                if not c["ok"] or c["rc"] != 0:
                    viol.append((f"C18:R:main:script-failed:{tag}", str(c)[:500], tag))
                elif c["method"] == "loky" and names != ["__main__"]:
                    viol.append((f"C18:R:main:reimported-under-loky:{c.get('launch', 'script')}",
                                 f"main launched as {c.get('launch')}: its body ran {len(names)} "
                                 f"times: {names}", tag))
                elif c["method"] == "loky_init_main" and c.get("launch") != "code" and (
                        names[0] != "__main__" or names.count("__mp_main__") != 2):
                    viol.append((f"C18:R:main:init-main-count:{c.get('launch', 'script')}",
                                 f"expected one import per worker (2): {names}", tag))
                elif c["method"] == "loky_init_main" and c.get("launch") == "code" \
                        and names != ["__main__"]:
                    viol.append(("C18:R:main:code-rerun", f"-c code cannot be re-imported: {names}", tag))
            samples.append(dict(part="main", example=res))
    return dict(violations=viol, samples=samples, cases=cases, breakdown=breakdown)
