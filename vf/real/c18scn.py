"""C18 real-process scenario (fresh interpreter): python -m vf.real.c18scn <part> <args> <out>"""
import itertools
import json
import os
import signal
import socket
import subprocess
import sys
import tempfile
import threading
import time


def report_fds(path):
    out = {}
    for n in os.listdir("/proc/self/fd"):
        try:
            out[n] = os.readlink(f"/proc/self/fd/{n}")
        except OSError:
            pass
    with open(path, "w") as f:
        json.dump(out, f)


def report_env(path, keys):
    with open(path, "w") as f:
        json.dump({k: os.environ.get(k) for k in keys}, f)


def die(how, arg):
    if how == "exit":
        os._exit(arg)
    if how == "signal":
        if arg != signal.SIGKILL:
            signal.signal(arg, signal.SIG_DFL)
        os.kill(os.getpid(), arg)
        time.sleep(10)
    if how == "sysexit-str":
        sys.exit("message")
    if how == "raise":
        raise RuntimeError("boom")
    if how == "return":
        return
    if how == "sleep":
        time.sleep(arg)


def part_fds(args, tmp):
    from loky.backend import get_context
    ctx = get_context("loky")
    kinds = ["pipe", "socket", "file", "high"]
    res = []
    for r in range(len(kinds) + 1):
        for subset in itertools.combinations(kinds, r):
            for inh in (False, True):
                if not subset and inh:
                    continue
                fds, keep = [], []
                for k in subset:
                    if k == "pipe":
                        a, b = os.pipe()
                        fds += [a, b]
                    elif k == "socket":
                        s = socket.socket()
                        keep.append(s)
                        fds.append(s.fileno())
                    elif k == "file":
                        f = open(os.path.join(tmp, "extra.txt"), "w")
                        keep.append(f)
                        fds.append(f.fileno())
                    elif k == "high":
                        a, b = os.pipe()
                        h = os.dup2(a, 250)
                        os.close(a)
                        fds += [250, b]
                for fd in fds:
                    os.set_inheritable(fd, inh)
                targets = {fd: os.readlink(f"/proc/self/fd/{fd}") for fd in fds}
                path = os.path.join(tmp, f"fds_{'-'.join(subset)}_{inh}.json")
                p = ctx.Process(target=report_fds, args=(path,))
                p.start()
                p.join(30)
                child = json.load(open(path)) if os.path.exists(path) else None
                for fd in fds:
                    try:
                        os.close(fd)
                    except OSError:
                        pass
                for o in keep:
                    try:
                        o.close()
                    except Exception:
                        pass
                res.append(dict(subset=list(subset), inheritable=inh, parent_extra=targets,
                                child=child, exitcode=p.exitcode))
    return res


def part_env(args, tmp):
    from loky.backend import get_context
    ctx = get_context("loky")
    site = os.path.join(tmp, "site")
    os.makedirs(site)
    rec = os.path.join(tmp, "startup_env.json")
    with open(os.path.join(site, "sitecustomize.py"), "w") as f:
        f.write("import os, json\n"
                "p = os.environ.get('VF_STARTUP_REC')\n"
                "if p:\n"
                "    json.dump({k: os.environ.get(k) for k in ('VF_NEW','VF_EXISTING','VF_EMPTY','VF_KEEP')}, open(p, 'w'))\n")
    os.environ["PYTHONPATH"] = site + os.pathsep + os.environ.get("PYTHONPATH", "")
    os.environ["VF_EXISTING"] = "orig"
    os.environ["VF_KEEP"] = "kept"
    keys = ["VF_NEW", "VF_EXISTING", "VF_EMPTY", "VF_KEEP"]
    res = []
    overlays = [None, {}, {"VF_NEW": "1"}, {"VF_EXISTING": "override"}, {"VF_EMPTY": ""},
                {"VF_NEW": "x", "VF_EXISTING": "y"}]
    for i, ov in enumerate(overlays):
        path = os.path.join(tmp, f"env_{i}.json")
        startup = os.path.join(tmp, f"startup_{i}.json")
        env = dict(ov or {})
        env["VF_STARTUP_REC"] = startup
        p = ctx.Process(target=report_env, args=(path, keys), env=env if ov is not None else
                        {"VF_STARTUP_REC": startup})
        p.start()
        p.join(30)
        res.append(dict(overlay=ov, parent={k: os.environ.get(k) for k in keys},
                        child=json.load(open(path)) if os.path.exists(path) else None,
                        at_startup=json.load(open(startup)) if os.path.exists(startup) else None,
                        exitcode=p.exitcode))
    return res


def _report_env_task(keys):
    return {k: os.environ.get(k) for k in keys}


def part_envseq(args, tmp):
    """The SAME env= mapping serves several spawns while the parent's environment changes in
    between (a variable modified, one deleted, one added): every child sees the parent's
    environment of ITS spawn time overlaid with the mapping, and the mapping is left alone."""
    from loky.backend import get_context
    from loky.process_executor import ProcessPoolExecutor
    ctx = get_context("loky")
    keys = ["VF_OVER", "VF_CHANGED", "VF_DELETED", "VF_ADDED"]
    res = []
    for how in ("process", "executor-respawn", "executor-resize"):
        os.environ["VF_CHANGED"] = "before"
        os.environ["VF_DELETED"] = "present"
        os.environ.pop("VF_ADDED", None)
        overlay = {"VF_OVER": "overlay"}
        seen = []
        parents = []

        def step(i):
            if i == 1:
                os.environ["VF_CHANGED"] = "after"
                os.environ.pop("VF_DELETED", None)
                os.environ["VF_ADDED"] = "new"
            parents.append({k: os.environ.get(k) for k in keys})
        try:
            if how == "process":
                for i in range(2):
                    step(i)
                    path = os.path.join(tmp, f"envseq_{i}.json")
                    p = ctx.Process(target=report_env, args=(path, keys), env=overlay)
                    p.start()
                    p.join(30)
                    seen.append(json.load(open(path)) if os.path.exists(path) else None)
            elif how == "executor-respawn":
                e = ProcessPoolExecutor(1, timeout=0.3, env=overlay)
                step(0)
                seen.append(e.submit(_report_env_task, keys).result(30))
                t0 = time.time()
                while e._processes and time.time() - t0 < 15:
                    time.sleep(0.05)
                step(1)
                seen.append(e.submit(_report_env_task, keys).result(30))
                e.shutdown()
            else:
                from loky import get_reusable_executor
                step(0)
                e = get_reusable_executor(max_workers=1, env=overlay, timeout=30)
                seen.append(e.submit(_report_env_task, keys).result(30))
                first = set(e._processes)
                step(1)
                e = get_reusable_executor(max_workers=2, env=overlay, timeout=30)
                fs = [e.submit(slow_env_task, keys, 0.4) for _ in range(2)]
                rs = [f.result(30) for f in fs]
                new = [r for r in rs if r["pid"] not in first]
                seen.append({k: new[0][k] for k in keys} if new else None)
                e.shutdown()
            err = None
        except BaseException as ex:      # noqa
            err = repr(ex)
        res.append(dict(how=how, seen=seen, parents=parents, overlay_after=dict(overlay), error=err))
    return res


def slow_env_task(keys, d):
    time.sleep(d)
    out = {k: os.environ.get(k) for k in keys}
    out["pid"] = os.getpid()
    return out


def part_exit(args, tmp):
    from loky.backend import get_context
    from multiprocessing.connection import wait
    ctx = get_context("loky")
    cases = [("exit", c) for c in range(256)] + [("signal", s) for s in (1, 2, 6, 9, 11, 15)]
    cases += [("sysexit-str", 0), ("raise", 0), ("return", 0)]
    if args.get("quick"):
        cases = [c for c in cases if c[0] != "exit" or c[1] in (0, 1, 2, 3, 7, 42, 127, 128, 137, 255)]
    res = []
    batch = 24
    for i in range(0, len(cases), batch):
        ps = []
        for how, arg in cases[i:i + batch]:
            p = ctx.Process(target=die, args=(how, arg))
            p.start()
            ps.append((how, arg, p))
        for how, arg, p in ps:
            p.join(40)
            ready = bool(wait([p.sentinel], 0))
            res.append(dict(how=how, arg=arg, exitcode=p.exitcode, sentinel_ready=ready,
                            alive=p.is_alive()))
    # two threads reap the same child concurrently: whoever loses the waitpid race must not
    # invent a status
    import threading as _th
    for how, arg in [("exit", 7), ("exit", 255), ("signal", 9), ("signal", 15)] * (1 if args.get("quick") else 3):
        p = ctx.Process(target=die, args=(how, arg))
        p.start()
        seen = {}

        def joiner(k):
            p.join(30)
            seen[k] = p.exitcode
        ts = [_th.Thread(target=joiner, args=(k,)) for k in range(2)]
        for t in ts:
            t.start()
        for t in ts:
            t.join(40)
        res.append(dict(how="concurrent-" + how, arg=arg, exitcode=p.exitcode, seen=seen,
                        alive=p.is_alive(), sentinel_ready=bool(wait([p.sentinel], 0))))
    # liveness: sentinel not ready while alive
    p = ctx.Process(target=die, args=("sleep", 1.0))
    p.start()
    time.sleep(0.4)
    res.append(dict(how="alive-check", arg=0, exitcode=p.exitcode, alive=p.is_alive(),
                    sentinel_ready=bool(wait([p.sentinel], 0))))
    p.join(20)
    return res


SCRIPT = '''
import os, sys
with open(os.environ["VF_SIDE"], "a") as f:
    f.write(f"{os.getpid()} {__name__}\\n")
if __name__ == "__main__":
    from loky.process_executor import ProcessPoolExecutor
    from loky.backend import get_context
    e = ProcessPoolExecutor(2, context=get_context(sys.argv[1]))
    r = list(e.map(abs, [-1, -2, -3, -4]))
    e.shutdown()
    print("RESULT", r)
'''


def part_main(args, tmp):
    """Every way of launching the parent's main (script file, -m module, -m package.module,
    -c code) x start method: how often does the body of the main module run, and as what?"""
    res = []
    os.makedirs(os.path.join(tmp, "vfpkg"))
    open(os.path.join(tmp, "vfpkg", "__init__.py"), "w").close()
    open(os.path.join(tmp, "vfpkg", "vfsub.py"), "w").write(SCRIPT)
    open(os.path.join(tmp, "vfmainmod.py"), "w").write(SCRIPT)
    for launch in ("script", "module", "package", "code"):
        for method in ("loky", "loky_init_main"):
            side = os.path.join(tmp, f"side_{launch}_{method}.txt")
            env = dict(os.environ, VF_SIDE=side)
            env["PYTHONPATH"] = tmp + os.pathsep + env.get("PYTHONPATH", "")
            if launch == "script":
                script = os.path.join(tmp, f"script_{method}.py")
                open(script, "w").write(SCRIPT)
                cmd = [sys.executable, script, method]
            elif launch == "module":
                cmd = [sys.executable, "-m", "vfmainmod", method]
            elif launch == "package":
                cmd = [sys.executable, "-m", "vfpkg.vfsub", method]
            else:
                cmd = [sys.executable, "-c", SCRIPT, method]
            r = subprocess.run(cmd, env=env, stdin=subprocess.DEVNULL, cwd=tmp,
                               stdout=subprocess.PIPE, stderr=subprocess.STDOUT, timeout=90)
            lines = open(side).read().split("\n") if os.path.exists(side) else []
            res.append(dict(method=method, launch=launch, rc=r.returncode,
                            lines=[l for l in lines if l],
                            ok="RESULT [1, 2, 3, 4]" in r.stdout.decode(errors="replace"),
                            tail=r.stdout.decode(errors="replace")[-300:]))
    return res


def main():
    part, args, out = sys.argv[1], json.loads(sys.argv[2]), sys.argv[3]
    threading.Timer(float(args.get("watchdog", 240)), lambda: os._exit(97)).start()
    tmp = tempfile.mkdtemp(prefix="vfc18_")
    try:
        res = dict(fds=part_fds, env=part_env, exit=part_exit, main=part_main,
                   envseq=part_envseq)[part](args, tmp)
    except BaseException:
        import traceback
        res = {"scenario_error": traceback.format_exc()[-2000:]}
    with open(out, "w") as f:
        json.dump(res, f)
    import shutil
    shutil.rmtree(tmp, ignore_errors=True)
    os._exit(0)


if __name__ == "__main__":
    main()
