"""Real-process fault enumeration for C02 (and conformance of engine S): the kill3 scenario is
run once per (fault label x worker ordinal x cause); each outcome must satisfy the C02 oracle."""
import concurrent.futures as cf

from . import runner

WORKER_LABELS = ["worker.start", "worker.init_done", "worker.got_item", "worker.before_call",
                 "worker.after_call" if False else "worker.result_sent", "rq.locked", "rq.sent",
                 "worker.timeout", "worker.mgmt_lock_held", "worker.before_announce",
                 "worker.announced", "worker.exit_lock_acquired"]
CAUSES = {"SIGKILL": "kill:9", "SIGSEGV": "kill:11", "SIGTERM": "kill:15", "exit3": "exit:3"}
CODE_TXT = {"SIGKILL": "SIGKILL(-9)", "SIGSEGV": "SIGSEGV(-11)", "SIGTERM": "SIGTERM(-15)",
            "exit3": "EXIT(3)"}


def plans(tier):
    out = []
    ordinals = [1] if tier == "quick" else [1, 2]
    causes = ["SIGKILL"] if tier == "quick" else list(CAUSES)
    for lab in WORKER_LABELS:
        for o in ordinals:
            for c in causes:
                if tier != "quick" and c in ("SIGSEGV", "SIGTERM") and lab not in (
                        "worker.before_call", "rq.locked", "worker.got_item"):
                    continue
                timeout = 0.5 if lab in ("worker.timeout", "worker.mgmt_lock_held",
                                         "worker.before_announce", "worker.announced",
                                         "worker.exit_lock_acquired") else None
                out.append(dict(label=lab, ordinal=o, cause=c, args=dict(timeout=timeout),
                                plan=[dict(label=lab, process="worker", ordinal=o, nth=1,
                                           action=CAUSES[c])]))
    out.append(dict(label="rq.partial", ordinal=1, cause="SIGKILL", args=dict(timeout=None),
                    plan=[dict(label="rq.locked", process="worker", ordinal=1, nth=1,
                               action="partial")]))
    if tier != "quick":
        out.append(dict(label="double-death", ordinal=0, cause="SIGKILL", args=dict(timeout=None),
                        plan=[dict(label="worker.before_call", process="worker", ordinal=1, nth=1,
                                   action="kill:9"),
                              dict(label="worker.before_call", process="worker", ordinal=2, nth=1,
                                   action="kill:9")]))
    return out


def is_bpp(f):
    return f[0] == "exc" and (f[1] in ("BrokenProcessPool", "TerminatedWorkerError")
                              or "BrokenProcessPool" in f[2])


def judge(p, r):
    """returns list of (signature, message)"""
    lab = p["label"]
    v = []
    res = r["result"]
    fired = bool(r["hooks"].strip())
    if r["status"] != "ok" or res is None or "scenario_error" in (res or {}):
        v.append((f"R:kill3:{lab}:scenario-hung-or-failed",
                  f"status={r['status']} result={res} stdio={r['stdio'][-400:]}"))
        return v, fired
    for i, f in enumerate(res["futures"]):
        if f[0] == "pending":
            v.append((f"R:kill3:{lab}:future-pending", f"future {i} never resolved: {res}"))
        elif f[0] == "val":
            if f[1] != repr(i * i):
                v.append((f"R:kill3:{lab}:fabricated-value", f"future {i} = {f[1]}"))
        elif not is_bpp(f):
            v.append((f"R:kill3:{lab}:wrong-exception:{f[1]}", f"future {i}: {f}"))
    ls = res["late_submit"]
    if ls[0] == "accepted":
        if ls[1] == "pending":
            v.append((f"R:kill3:{lab}:late-future-pending", f"{ls}"))
        elif ls[1] == "exc" and not is_bpp(ls[1:]):
            v.append((f"R:kill3:{lab}:late-wrong-exception:{ls[2]}", f"{ls}"))
    elif not (ls[1] in ("BrokenProcessPool", "TerminatedWorkerError") or "BrokenProcessPool" in ls[2]):
        v.append((f"R:kill3:{lab}:late-submit-raised:{ls[1]}", f"{ls}"))
    anyb = any(is_bpp(f) for f in res["futures"])
    if anyb and res["broken"] is None:
        v.append((f"R:kill3:{lab}:bpp-without-flag", f"{res}"))
    if res["broken"] and res["broken"][0] == "TerminatedWorkerError" and fired \
            and lab != "double-death" and CODE_TXT[p["cause"]] not in res["broken"][1]:
        v.append((f"R:kill3:{lab}:exit-codes-missing", f"{res['broken'][1][:300]}"))
    if not res["shutdown_returned"]:
        v.append((f"R:kill3:{lab}:shutdown-hangs", f"shutdown(wait=True) did not return: {res}"))
    else:
        if res["alive"]:
            v.append((f"R:kill3:{lab}:workers-left-alive", f"{res}"))
        if res["zombies"]:
            v.append((f"R:kill3:{lab}:workers-not-reaped", f"{res}"))
    return v, fired


def outcome_class(res):
    if not res:
        return None
    return (tuple("bpp" if is_bpp(f) else f[0] for f in res["futures"]),
            None if res["broken"] is None else res["broken"][0], res["shutdown_returned"])


def run_all(tier, nproc=8):
    ps = plans(tier)
    with cf.ThreadPoolExecutor(nproc) as tp:
        rs = list(tp.map(lambda p: runner.run("kill3", dict(p["args"], watchdog=70), p["plan"],
                                              timeout=80), ps))
    out = []
    for p, r in zip(ps, rs):
        v, fired = judge(p, r)
        out.append(dict(plan=p, violations=v, fired=fired, wall=r["wall"],
                        cls=outcome_class(r["result"]), hooks=r["hooks"].strip()))
    return out
