"""C19 real-process scenario (fresh interpreter): python -m vf.real.c19scn chain <args> <out>

A chain of really nested executors: the task running at level k records the depth its worker
sees and tries to create an executor of its own, whose task is level k+1.  Each level uses one
of several ways of obtaining the worker that runs the next level (fresh, reused after a first
task, respawned after an idle timeout, added by a resize, memory-leak respawn)."""
import json
import os
import sys
import threading
import time


def _children():
    me = str(os.getpid())
    out = []
    for d in os.listdir("/proc"):
        if not d.isdigit():
            continue
        try:
            st = open(f"/proc/{d}/stat").read().rsplit(")", 1)[1].split()
            cmd = open(f"/proc/{d}/cmdline", "rb").read()
        except (OSError, IndexError):
            continue
        if st[1] == me and b"resource_tracker" not in cmd and st[0] != "Z":
            out.append(int(d))
    return out


def depth_probe():
    import loky.process_executor as pe
    return pe._CURRENT_DEPTH, os.getpid()


def slow_probe(t):
    time.sleep(t)
    return depth_probe()


def level(k, cfg):
    """Runs inside the worker of level k (k = 0: the root process)."""
    import loky
    import loky.process_executor as pe
    from loky.backend import get_context
    rec = dict(level=k, depth=pe._CURRENT_DEPTH, max_depth=pe.MAX_DEPTH, pid=os.getpid())
    if k >= cfg["levels"]:
        rec["stopped"] = True
        return [rec]
    before = _children()
    how = cfg["how"][k % len(cfg["how"])]
    method = cfg["method"]
    ex = None
    try:
        kw = {}
        if method != "default":
            kw["context"] = get_context(method) if cfg["api"] == "ppe" else method
        if how == "timeout":
            kw["timeout"] = 0.3
        if cfg["api"] == "ppe":
            ex = pe.ProcessPoolExecutor(max_workers=1, **kw)
        else:
            ex = loky.get_reusable_executor(max_workers=1, **kw)
        rec["created"] = True
    except pe.LokyRecursionError as e:
        rec["created"] = False
        rec["error"] = str(e)[:200]
        rec["spawned"] = sorted(set(_children()) - set(before))
        return [rec]
    except BaseException as e:        # noqa
        rec["created"] = repr(e)[:300]
        return [rec]
    try:
        seen = [ex.submit(depth_probe).result(60)]
        if how == "reuse":
            seen.append(ex.submit(depth_probe).result(60))
        elif how == "timeout":
            t0 = time.time()
            while ex._processes and time.time() - t0 < 20:
                time.sleep(0.05)
            rec["timed_out"] = not ex._processes
            seen.append(ex.submit(depth_probe).result(60))
        elif how == "resize":
            if cfg["api"] == "ppe":
                ex.shutdown()
                ex = pe.ProcessPoolExecutor(max_workers=2, **kw)
            else:
                ex = loky.get_reusable_executor(max_workers=2, **kw)
            # two tasks that overlap in time: each of the two workers has to take one
            fs = [ex.submit(slow_probe, 0.6) for _ in range(2)] + [ex.submit(depth_probe)]
            seen += [f.result(60) for f in fs]
        elif how == "kill":
            # the worker is killed, the broken executor is replaced by a fresh one
            victim = list(ex._processes.values())[0]
            os.kill(victim.pid, 9)
            try:
                ex.submit(depth_probe).result(60)
            except BaseException as e:   # noqa
                rec["after_kill"] = type(e).__name__
            if cfg["api"] == "ppe":
                ex.shutdown(kill_workers=True)
                ex = pe.ProcessPoolExecutor(max_workers=1, **kw)
            else:
                ex = loky.get_reusable_executor(max_workers=1, **kw)
            seen.append(ex.submit(depth_probe).result(60))
        rec["seen"] = [s[0] for s in seen]
        rec["worker_pids"] = sorted({s[1] for s in seen})
        rec["how"] = how
        sub = ex.submit(level, k + 1, cfg).result(240)
        return [rec] + sub
    except BaseException as e:        # noqa
        rec["failure"] = repr(e)[:400]
        return [rec]
    finally:
        try:
            ex.shutdown(wait=True, kill_workers=True)
        except BaseException:         # noqa
            pass


def main():
    part, args, out = sys.argv[1], json.loads(sys.argv[2]), sys.argv[3]
    t = threading.Timer(float(args.get("watchdog", 200)), lambda: os._exit(97))
    t.daemon = True
    t.start()
    try:
        import vf.real.c19scn as me     # tasks are shipped by reference, not by value
        res = me.level(0, args)
    except BaseException:
        import traceback
        res = {"scenario_error": traceback.format_exc()[-2000:]}
    with open(out, "w") as f:
        json.dump(res, f)
    os._exit(0)


if __name__ == "__main__":
    main()
