"""Check plumbing shared by all engines: known findings, replay artefacts, evidence files,
VIOLATION / KNOWN-FINDING lines and exit codes."""
import fnmatch
import hashlib
import json
import os
import subprocess
import sys
import time

ROOT = os.path.dirname(os.path.dirname(os.path.abspath(__file__)))
EVIDENCE_DIR = os.environ.get("VF_EVIDENCE_DIR") or os.path.join(ROOT, "evidence")   # override: seed tooling only
REPLAY_DIR = os.path.join(ROOT, "replays")
KNOWN = os.path.join(ROOT, "known_findings.json")


def seed():
    try:
        return int(os.environ.get("VERIF_SEED", "0"))
    except ValueError:
        return 0


def load_known(pid):
    try:
        with open(KNOWN) as f:
            data = json.load(f)
    except FileNotFoundError:
        return []
    return [e for e in data.get("findings", [])
            if (pid in e.get("properties", []) or e.get("property") == pid)
            and e.get("status", "open") == "open"]


def match_known(known, signature):
    import re
    signature = re.sub(r"^C\d\d:", "", signature)
    for e in known:
        for pat in e["signatures"]:
            if fnmatch.fnmatchcase(signature, pat):
                return e
    return None


def write_replay(pid, v):
    os.makedirs(os.path.join(REPLAY_DIR, pid), exist_ok=True)
    body = json.dumps(v, indent=1, sort_keys=True, default=str)
    h = hashlib.sha1(body.encode()).hexdigest()[:12]
    path = os.path.join(REPLAY_DIR, pid, f"{h}.json")
    with open(path, "w") as f:
        f.write(body)
    return path


class Report:
    """Collects what one check run found and produces the interface output."""

    def __init__(self, pid, tier, level):
        self.pid = pid
        self.tier = tier
        self.level = level
        self.t0 = time.time()
        self.violations = []     # dicts with signature, msg, replay payload
        self.internal = []
        self.coverage = {}
        self.assumptions = []

    def add_violation(self, v):
        self.violations.append(v)

    def finish(self):
        known = load_known(self.pid)
        dump = os.environ.get("VF_DUMP")
        if dump:
            with open(dump, "w") as f:
                json.dump([dict(signature=v["signature"],
                                prog=(v.get("prog") or {}).get("name") if isinstance(v.get("prog"), dict)
                                else v.get("program"),
                                prefix=v.get("prefix"), msg=v.get("msg", "")[:300])
                           for v in self.violations], f)
        reported = {}
        known_hit = {}
        for v in self.violations:
            sig = v["signature"]
            e = match_known(known, sig)
            if e is not None:
                known_hit.setdefault(e["id"], (e, v, 0))
                e0, v0, n = known_hit[e["id"]]
                known_hit[e["id"]] = (e0, v0, n + 1)
            else:
                if sig not in reported:
                    reported[sig] = [v, 0]
                reported[sig][1] += 1
        for fid, (e, v, n) in sorted(known_hit.items()):
            print(f"KNOWN-FINDING: property={self.pid} {fid}: {e['summary']} "
                  f"[{n} executions, e.g. signature {v['signature']}]")
        nviol = 0
        for sig, (v, n) in sorted(reported.items()):
            v = dict(v)
            v["property"] = self.pid
            v["occurrences"] = n
            path = write_replay(self.pid, v)
            print(f"VIOLATION property={self.pid} replay={path}")
            print(f"  signature: {sig}  ({n} executions)")
            print(f"  {str(v.get('msg', ''))[:600]}")
            nviol += 1
        for e in self.internal[:5]:
            print(f"INTERNAL-ERROR property={self.pid}: {json.dumps(e, default=str)[:1500]}")
        cov = dict(self.coverage)
        cov["known_findings_seen"] = sorted(known_hit)
        cov["violation_signatures"] = sorted(reported)[:50]
        ev = dict(property_id=self.pid, tier=self.tier, seed=seed(), level=self.level,
                  coverage=cov, assumptions=self.assumptions,
                  wall_s=round(time.time() - self.t0, 2), violations=nviol)
        os.makedirs(EVIDENCE_DIR, exist_ok=True)
        path = os.path.join(EVIDENCE_DIR, f"{self.pid}.json")
        with open(path, "w") as f:
            json.dump(ev, f, indent=1, default=str)
        validate_evidence(path)
        if self.internal:
            return 2
        return 1 if nviol else 0


def validate_evidence(path):
    vt = "/opt/veriftools/pyvenv/bin/python"
    schema = "/root/.vp/EVIDENCE.schema.json"
    if not (os.path.exists(vt) and os.path.exists(schema)):
        return
    code = ("import json,sys,jsonschema;"
            "jsonschema.validate(json.load(open(sys.argv[1])),json.load(open(sys.argv[2])))")
    r = subprocess.run([vt, "-c", code, path, schema], capture_output=True, text=True)
    if r.returncode != 0:
        print(f"INTERNAL-ERROR evidence file {path} does not validate: {r.stderr[-500:]}")
        sys.exit(2)
