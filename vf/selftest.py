"""setup_cmd / conformance suite: binds the modelled kernel (vf.sim.shims) to the real
primitives by exhaustive differential enumeration of short operation sequences, and smoke-
tests the engine.  Exit 0 iff everything agrees.  Also importable: ``run()`` returns counts
that engine-S checks record as traces_validated_against_impl."""
import itertools
import json
import multiprocessing
import os
import signal
import sys
import time

import _multiprocessing

from .sim import kernel as K, shims


def _in_sim(fn):
    """Run fn() as the single thread of a simulated parent process; return its result."""
    out = {}
    S = K.Sched(kinds=())
    K.S = S

    def main():
        out["r"] = fn()
    try:
        v = S.run(main)
    finally:
        K.S = None
    if "r" not in out:
        raise RuntimeError(f"simulated sequence did not complete: verdict={v} "
                           f"errors={S.thread_errors}")
    return out["r"]


def _call(f):
    try:
        return ("ok", f())
    except BaseException as e:
        return ("exc", type(e).__name__)


# ---- SemLock ------------------------------------------------------------------------------
SEM_OPS = ["try", "acq0", "rel", "count", "mine", "value", "zero"]
SEM_KINDS = [(0, 1, 1), (1, 1, 1), (1, 2, 2), (1, 0, 2 ** 31 - 1), (1, 0, 1)]


def _sem_apply(sl, op):
    if op == "try":
        return _call(lambda: sl.acquire(False))
    if op == "acq0":
        return _call(lambda: sl.acquire(True, 0.0))
    if op == "rel":
        return _call(lambda: sl.release())
    if op == "count":
        return _call(lambda: sl._count())
    if op == "mine":
        return _call(lambda: sl._is_mine())
    if op == "value":
        return _call(lambda: sl._get_value())
    if op == "zero":
        return _call(lambda: sl._is_zero())


def semlock_conformance(depth=4):
    n = 0
    bad = []
    seqs = [s for d in range(1, depth + 1) for s in itertools.product(SEM_OPS, repeat=d)
            if s[-1] in ("try", "acq0", "rel") or d == depth]
    for kind, value, maxvalue in SEM_KINDS:
        def real_side():
            res = []
            for i, seq in enumerate(seqs):
                name = f"/vfconf-{os.getpid()}-{kind}{value}-{i}"
                sl = _multiprocessing.SemLock(kind, value, maxvalue, name, True)
                res.append([_sem_apply(sl, op) for op in seq])
            return res

        def sim_side():
            res = []
            for i, seq in enumerate(seqs):
                sl = shims.SimSemLock(kind, value, maxvalue, f"/c-{kind}{value}-{i}", True)
                res.append([_sem_apply(sl, op) for op in seq])
            return res
        r = real_side()
        s = _in_sim(sim_side)
        for seq, a, b in zip(seqs, r, s):
            n += 1
            if a != b:
                bad.append(("semlock", (kind, value, maxvalue), seq, a, b))
    # pickled copy: ownership is per object, kernel value shared by name
    def copy_real():
        name = f"/vfconf-{os.getpid()}-copy"
        a = _multiprocessing.SemLock(0, 1, 1, name, False)
        try:
            b = _multiprocessing.SemLock._rebuild(a.handle, 0, 1, name)
            return [_call(lambda: a.acquire(False)), _call(lambda: b._is_mine()),
                    _call(lambda: b._count()), _call(lambda: b.acquire(False)),
                    _call(lambda: b.release()), _call(lambda: a.release()),
                    _call(lambda: b.acquire(False)), _call(lambda: a._get_value())]
        finally:
            _multiprocessing.sem_unlink(name)

    def copy_sim():
        a = shims.SimSemLock(0, 1, 1, "/c-copy", False)
        b = shims.SimSemLock._rebuild(a.handle, 0, 1, "/c-copy")
        return [_call(lambda: a.acquire(False)), _call(lambda: b._is_mine()),
                _call(lambda: b._count()), _call(lambda: b.acquire(False)),
                _call(lambda: b.release()), _call(lambda: a.release()),
                _call(lambda: b.acquire(False)), _call(lambda: a._get_value())]
    n += 1
    a, b = copy_real(), _in_sim(copy_sim)
    if a != b:
        bad.append(("semlock-copy", a, b))
    # namespace
    def ns_real():
        name = f"/vfconf-{os.getpid()}-ns"
        out = []
        a = _multiprocessing.SemLock(1, 1, 1, name, False)
        out.append(_call(lambda: _multiprocessing.SemLock(1, 1, 1, name, False) and None))
        out.append(_call(lambda: _multiprocessing.sem_unlink(name)))
        out.append(_call(lambda: _multiprocessing.sem_unlink(name)))
        out.append(_call(lambda: _multiprocessing.SemLock._rebuild(a.handle, 1, 1, name) and None))
        return out

    def ns_sim():
        name = "/c-ns"
        out = []
        a = shims.SimSemLock(1, 1, 1, name, False)
        out.append(_call(lambda: shims.SimSemLock(1, 1, 1, name, False) and None))
        out.append(_call(lambda: shims.sem_unlink(name)))
        out.append(_call(lambda: shims.sem_unlink(name)))
        out.append(_call(lambda: shims.SimSemLock._rebuild(a.handle, 1, 1, name) and None))
        return out
    n += 1
    a, b = ns_real(), _in_sim(ns_sim)
    if a != b:
        bad.append(("semlock-namespace", a, b))
    return n, bad


# ---- Pipe / Connection / wait -----------------------------------------------------------
PIPE_OPS = ["send1", "send0", "poll", "recv", "closer", "closew", "wait", "dropw2"]


def _pipe_run(mod_pipe, mod_wait, seq, dup_writer):
    r, w = mod_pipe(duplex=False)
    w2 = dup_writer(w)
    out = []
    for op in seq:
        if op == "send1":
            out.append(_call(lambda: w.send_bytes(b"abc")))
        elif op == "send0":
            out.append(_call(lambda: w.send_bytes(b"")))
        elif op == "poll":
            out.append(_call(lambda: r.poll(0)))
        elif op == "wait":
            out.append(_call(lambda: len(mod_wait([r], 0))))
        elif op == "recv":
            ready = _call(lambda: r.poll(0))
            if ready == ("ok", True) or ready[0] == "exc":
                out.append(_call(lambda: r.recv_bytes()))
            else:
                out.append(("skip",))
        elif op == "closer":
            out.append(_call(lambda: r.close()))
        elif op == "closew":
            out.append(_call(lambda: w.close()))
        elif op == "dropw2":
            if w2 is not None:
                out.append(_call(lambda: w2.close()))
                w2 = None
            else:
                out.append(("skip",))
    for c in (r, w, w2):
        try:
            if c is not None:
                c.close()
        except BaseException:
            pass
    return out


def pipe_conformance(depth=4):
    seqs = [s for d in range(1, depth + 1) for s in itertools.product(PIPE_OPS, repeat=d)]
    old = signal.signal(signal.SIGPIPE, signal.SIG_IGN)
    try:
        from multiprocessing import connection as rc

        def real_dup(w):
            return rc.Connection(os.dup(w.fileno()), readable=False)
        real = [_pipe_run(multiprocessing.Pipe, rc.wait, s, real_dup) for s in seqs]
    finally:
        signal.signal(signal.SIGPIPE, old)

    def sim_dup(w):
        s = K.S
        proc = s.cur.proc
        end = proc.fds[w.fileno()]
        return shims.Connection(proc.alloc_fd(end), readable=False)

    def sim_side():
        return [_pipe_run(shims.Pipe, shims.wait, s, sim_dup) for s in seqs]
    sim = _in_sim(sim_side)
    bad = [("pipe", s, a, b) for s, a, b in zip(seqs, real, sim) if a != b]
    return len(seqs), bad


def smoke():
    from .sim import driver, programs
    rec = driver.run_program(programs.basic(2, None))
    ok = (rec.verdict == "completed" and rec.fut == {"a": ("val", ("a", 5)),
                                                      "b": ("val", ("b", 10))}
          and not rec.thread_errors and rec.parent_fds == [rec.tracker_fd])
    rec2 = driver.run_program(programs.basic(2, None))
    same = rec.alts_log == rec2.alts_log and rec.states == rec2.states
    return ok, same, len(rec.alts_log)


def run(depth=4):
    t0 = time.time()
    n1, b1 = semlock_conformance(depth)
    n2, b2 = pipe_conformance(depth)
    return dict(count=n1 + n2, semlock_sequences=n1, pipe_sequences=n2,
                disagreements=[repr(x)[:400] for x in (b1 + b2)[:10]],
                n_disagreements=len(b1) + len(b2), depth=depth,
                wall_s=round(time.time() - t0, 2))


def main():
    res = run(int(os.environ.get("VF_CONF_DEPTH", "4")))
    ok, same, nd = smoke()
    res.update(smoke_ok=ok, deterministic=same, smoke_decisions=nd)
    print(json.dumps(res, indent=1))
    if res["n_disagreements"] or not ok or not same:
        print("SELFTEST FAILED")
        return 1
    print("selftest ok")
    return 0


if __name__ == "__main__":
    sys.exit(main())
