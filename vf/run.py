"""Entry point: python -m vf.run <property id> --tier quick|thorough [--replay file]"""
import argparse
import importlib
import os
import sys


def main():
    ap = argparse.ArgumentParser()
    ap.add_argument("pid")
    ap.add_argument("--tier", default=os.environ.get("VERIF_TIER", "quick"),
                    choices=["quick", "thorough"])
    ap.add_argument("--replay")
    a = ap.parse_args()
    mod = importlib.import_module(f"vf.checks.{a.pid.lower()}")
    if a.replay:
        sys.exit(mod.replay(a.replay) if hasattr(mod, "replay") else _generic_replay(a.replay))
    sys.exit(mod.main(a.tier))


def _generic_replay(path):
    import json
    v = json.load(open(path))
    print("replaying", path, "signature on file:", v.get("signature"))
    if "prog" not in v:
        return _replay_other(v)
    from vf.sim import driver, explore
    prefix = tuple(tuple(x) for x in v["prefix"])
    opts = v.get("opts", {})
    rec = driver.run_program(v["prog"], prefix, kinds=tuple(opts.get("kinds", "PTK")),
                             kill_code=opts.get("kill_code", -9),
                             kill_when=opts.get("kill_when"), starve=opts.get("starve"), p_scope=opts.get("p_scope"),
                             t_scope=opts.get("t_scope"), t_when=opts.get("t_when"),
                             p_when=opts.get("p_when"), t_cur=opts.get("t_cur"),
                             zero_when=opts.get("zero_when"), lines=opts.get("lines"),
                             p_cur=opts.get("p_cur"), horizon=opts.get("horizon", 50_000))
    print(explore.render(rec))
    print("signature on file:", v.get("signature"))
    return 0


def _replay_other(v):
    """Re-executes a stored non-simulator case without the enumerator."""
    import json
    if "history" in v:                                     # C11 / C12 tracker histories
        from vf.checks import c11
        ev = dict((lab, raw) for lab, raw in c11.alphabet() + [c11.TRUNC])
        hist = [(lab, ev[lab]) for lab in v["history"]]
        found = []
        c11.check_history(c11.Harness(), hist, lambda sig, msg, labels: found.append((sig, msg)))
        for sig, msg in found:
            print("VIOLATION-AGAIN", sig, msg[:400])
        print("history", v["history"], "->", len(found), "violations")
        return 1 if found else 0
    if "program" in v and str(v.get("signature", "")).startswith("C12:S:"):   # C12 client schedules
        from vf.checks import c12s
        found = c12s.replay(v)
        for sig, msg in found:
            print("VIOLATION-AGAIN", sig, msg[:500])
        print("program", v["program"], "choices", v["prefix"], "->", len(found), "violations")
        return 1 if found else 0
    if "harness" in v and "choices" in v:                  # C14
        from vf.checks import c14
        from vf import c14engine as E
        from vf.q import common
        build = dict(c14.harnesses("thorough"))[v["harness"]]
        E.S = E.Sched(list(v["choices"]), set(), [], (c14.HERE,))
        syn = E.load_sync(common.REPO)
        fns, oracle = build(E.S, syn)
        verdict = E.S.run(fns)
        msgs = [("exception:" + e[1], e[2]) for e in E.S.errors] + oracle(E.S, verdict)
        print("verdict", verdict, "blocked", E.S.blocked, "out", dict(E.S.out))
        for m in msgs:
            print("VIOLATION-AGAIN", m)
        return 1 if msgs else 0
    if "config" in v and str(v.get("signature", "")).startswith("C17"):
        import ast
        from vf.checks import c17
        from vf.q import common
        ctx = common.load("loky.backend.context")
        saved = {k: getattr(ctx, k) for k in ("os", "subprocess", "warnings", "traceback", "sys")}
        cfg = ast.literal_eval(v["config"])
        got = c17.run(ctx, cfg, saved)
        print("config", cfg, "got", got, "expected", c17.reference(cfg))
        return 1 if got[0] != c17.reference(cfg)[0] else 0
    print(json.dumps({k: v[k] for k in v if k != "trace"}, indent=1, default=str)[:4000])
    print("(this case is re-run by its check: python -m vf.run", v.get("property"), ")")
    return 0


if __name__ == "__main__":
    main()
