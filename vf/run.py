"""Entry point: python -m vf.run <property id> --tier quick|thorough [--replay file]"""
import argparse
import importlib
import os
import sys


def main():
    ap = argparse.ArgumentParser()
    ap.add_argument("pid")
    ap.add_argument("--tier", default=os.environ.get("VERIF_TIER", "quick"),
                    choices=["quick", "thorough"])
    ap.add_argument("--replay")
    a = ap.parse_args()
    mod = importlib.import_module(f"vf.checks.{a.pid.lower()}")
    if a.replay:
        sys.exit(mod.replay(a.replay) if hasattr(mod, "replay") else _generic_replay(a.replay))
    sys.exit(mod.main(a.tier))


def _generic_replay(path):
    import json
    from vf.sim import driver, explore
    v = json.load(open(path))
    prefix = tuple(tuple(x) for x in v["prefix"])
    opts = v.get("opts", {})
    rec = driver.run_program(v["prog"], prefix, kinds=tuple(opts.get("kinds", "PTK")),
                             kill_code=opts.get("kill_code", -9),
                             kill_when=opts.get("kill_when"), starve=opts.get("starve"))
    print(explore.render(rec))
    print("signature on file:", v.get("signature"))
    return 0


if __name__ == "__main__":
    main()
