"""Engine Q helpers: import the real loky from the tree under test."""
import importlib
import os
import sys

REPO = os.environ.get("VF_REPO", "/repo")


def load(name):
    if sys.path[0] != REPO:
        sys.path.insert(0, REPO)
    m = importlib.import_module(name)
    f = getattr(m, "__file__", "") or ""
    if not f.startswith(REPO + "/"):
        raise RuntimeError(f"{name} imported from {f}, not from {REPO}")
    return m
