"""C06 - forced shutdown is prompt, total and explicit (simulation part; the process-tree
part is vf.checks.c06tree, run from here as well)."""
from ..sim import programs as PG, simcheck

ORACLE = "vf.sim.props:c06"


def plan(tier):
    A = dict(kinds=("P", "T", "K"))
    PT = dict(kinds=("P", "T"))
    pl = [(PG.forced(2, False, 3), 1, A), (PG.forced(1, False, 2), 1, A),
          (PG.forced(2, True, 2), 1, A), (PG.forced_two_gates(2), 1, A),
          (PG.forced(3, False, 6), 1, PT), (PG.forced_after_nowait(2, False), 1, PT),
          (PG.forced_after_nowait(2, True), 1, PT), (PG.forced_escalation(2), 1, PT)]
    if tier == "thorough":
        pl += [(PG.forced(2, False, 3), 2, PT), (PG.forced(2, True, 2), 2, dict(kinds=("P",)))]
    return pl


def main(tier):
    return simcheck.run("C06", tier, plan(tier), ORACLE)
