"""C06 - forced shutdown is prompt, total and explicit (simulation part; the process-tree
part is vf.checks.c06tree, run from here as well)."""
from ..sim import programs as PG, simcheck

ORACLE = "vf.sim.props:c06"


def plan(tier):
    A = dict(kinds=("P", "T", "K"))
    PT = dict(kinds=("P", "T"))
    pl = [(PG.forced(2, False, 3), 1, A), (PG.forced(1, False, 2), 1, A),
          (PG.forced(2, True, 2), 1, A), (PG.forced_two_gates(2), 1, A),
          (PG.forced(3, False, 6), 1, PT), (PG.forced_after_nowait(2, False), 1, PT),
          (PG.forced_after_nowait(2, True), 1, PT), (PG.forced_escalation(2), 1, PT),
          (PG.forced_full_pipe(1, 1024, 3, 700, False), 1, PT),
          (PG.forced_descendants(2, False, False), 1, PT), (PG.forced_descendants(1, True, False), 1, PT),
          (PG.forced_descendants(2, False, True), 1, dict(kinds=("P",))),
          (PG.forced_nowait_prompt(2, 1), 1, PT), (PG.forced_nowait_prompt(1, 2), 1, PT),
          (PG.forced_then_graceful(2, True), 1, PT), (PG.forced_then_graceful(1, False), 1, PT),
          (PG.forced_with_callbacks(1, False), 1, PT), (PG.forced_with_callbacks(2, True), 1, dict(kinds=("P",))),
          (PG.shutdown_in_callback("shutdown_kill", 2, 3), 1, PT),
          # a worker on its way out (idle timeout announced, released by the manager, not yet
          # gone) when the forced shutdown arrives; workers run last (slow exit)
          (PG.forced_while_worker_leaves(2), 1, dict(kinds=("T",), starve="worker")),
          (PG.forced_while_worker_leaves(2), 1, PT),
          (PG.forced_while_worker_leaves(3), 1, dict(kinds=("T",), starve="worker"))]
    if tier == "thorough":
        pl += [(PG.forced(2, False, 3), 2, PT), (PG.forced(2, True, 2), 2, dict(kinds=("P",)))]
    # source-line granularity (one preemption at any line of loky run by a parent thread)
    pl += simcheck.line_plan([PG.forced_escalation(2), PG.forced(1, False, 2)])
    if tier == "thorough":
        pl += simcheck.line_plan([p for p, _, _ in pl])
    return pl


def main(tier):
    from ..sim import treekill
    r = treekill.run_all(4 if tier == "quick" else 5, 1)
    viols = [dict(signature=sig, msg=msg, case=case) for sig, msg, case in r["violations"]]
    return simcheck.run("C06", tier, plan(tier), ORACLE, extra_violations=viols,
                        extra_cov=dict(process_trees=dict(executions=r["executions"],
                                                          states=r["states"], samples=r["samples"],
                                                          rule="every rooted tree with <= 4 (quick) / 5 "
                                                               "(thorough) processes x psutil present/absent, "
                                                               "real kill_process_tree, all schedules with one "
                                                               "deviation incl. the death of a leaf descendant")))
