"""C04 - task-level failures are contained to their own future."""
from ..sim import programs as PG, simcheck

ORACLE = "vf.sim.props:c04"
KINDS = ["raise", "sysexit", "kbint", "bad_arg", "exit_arg", "huge_arg", "unpicklable_result",
         "index_arg", "key_arg"]
# every exception class a user's __reduce__ may raise is an error of that task only
EXC_KINDS = ["oserror_arg", "epipe_arg", "ebadf_arg", "timeouterr_arg", "eof_arg", "stopiter_arg",
             "attr_arg", "type_arg", "assert_arg", "memory_arg", "recursion_arg", "kbintp_arg",
             "genexit_arg"]


HOSTILE_KINDS = ["raise_badstr", "raise_unprintable", "raise_badrepr_arg", "raise_badrepr_kwarg",
                 "raise_badrepr_fn", "ok_badrepr_arg"]


def plan(tier):
    PT = dict(kinds=("P", "T"))
    pl = []
    for k in KINDS:
        pl.append((PG.failing(k, 1), 1, PT))
        pl.append((PG.failing_first_ok(k, 2), 1, PT))
    for k in EXC_KINDS:
        pl.append((PG.failing_first_ok(k, 1), 0 if tier == "quick" else 1, PT))
    # exceptions, callables and arguments that cannot be printed (__str__ / __repr__ raise)
    for k in HOSTILE_KINDS:
        pl.append((PG.failing_first_ok(k, 1), 0, PT))
    pl.append((PG.mixed_failures(["raise_badstr", "ok", "raise_badrepr_arg", "ok"], 2), 0, PT))
    for exc in ("KeyboardInterrupt", "SystemExit", "GeneratorExit", "MemoryError", "StopIteration"):
        pl.append((PG.callback_raises_exc(exc, 1, "ok"), 0 if exc in ("MemoryError", "StopIteration") else 1, PT))
        pl.append((PG.callback_raises_exc(exc, 1, "bad_arg"), 0, PT))
    pl += [(PG.big_and_small(2), 1, PT), (PG.big_and_small(3, 5000, 1024, 4), 1, dict(kinds=("P",))),
           (PG.late_callbacks(1), 1, PT), (PG.many_unsendable(6, 1), 1, PT), (PG.callback_raises(1), 1, PT),
           (PG.mixed_failures(["bad_arg", "raise", "ok", "huge_arg", "ok"], 1), 1, PT),
           (PG.mixed_failures(["ok", "ok", "ok", "ok", "bad_arg", "ok"], 1), 1, PT),
           (PG.mixed_failures(["unpicklable_result", "bad_arg", "sysexit"], 2, 0.05), 1, PT),
           (PG.feeder_vs_break(2), 1, dict(kinds=("P",))),
           (PG.shutdown_late_error(1), 1, PT),
           (PG.resubmit_from_callback("bad_arg", 1), 1, PT), (PG.resubmit_from_callback("raise", 1), 1, PT),
           (PG.resubmit_from_callback("huge_arg", 2), 1, PT), (PG.resubmit_from_callback("ok", 1), 1, PT)]
    if tier == "thorough":
        pl += [(PG.failing("bad_arg", 1), 2, PT), (PG.many_unsendable(4, 1), 2, dict(kinds=("P",))),
               (PG.feeder_vs_break(2), 2, dict(kinds=("P",))),
               (PG.mixed_failures(["bad_arg", "raise", "ok"], 2), 2, dict(kinds=("P",)))]
    # source-line granularity (one preemption at any line of loky run by a parent thread)
    pl += simcheck.line_plan([PG.feeder_vs_break(2), PG.resubmit_from_callback("bad_arg", 1)])
    if tier == "thorough":
        pl += simcheck.line_plan([PG.failing(k, 1) for k in KINDS] + [PG.many_unsendable(4, 1), PG.callback_raises(1), PG.shutdown_late_error(1)])
    return pl


def main(tier):
    return simcheck.run("C04", tier, plan(tier), ORACLE)
