"""C07 - idle-timeout exits are invisible: never 'broken', never a lost task."""
from ..sim import programs as PG, simcheck

ORACLE = "vf.sim.props:c07"


def plan(tier):
    PT = dict(kinds=("P", "T"))
    pl = [(PG.warm_then(1, 0.05, "await"), 1, PT), (PG.warm_then(2, 0.05, "await"), 1, PT),
          (PG.warm_then(1, 0.05, "wait"), 1, PT), (PG.warm_then(1, 0.05, "nowait"), 1, PT),
          (PG.warm_then(2, 0.05, "exit"), 1, PT),
          (PG.idle_then_submit(2, 0.05), 1, PT), (PG.idle_then_submit(1, 0.05, "ok"), 1, PT),
          (PG.bursts(2, 0.05), 1, PT), (PG.timeout_resize(2, 1), 1, PT),
          (PG.timeout_resize(1, 3), 1, PT), (PG.two_submitters(2, 0.05), 1, PT),
          (PG.basic(3, 0.05), 1, PT), (PG.memory_leak_respawn(1), 1, PT),
          (PG.memory_leak_respawn(2, None, "nowait"), 1, PT)]
    if tier == "thorough":
        pl += [(PG.warm_then(1, 0.05, "await"), 2, PT), (PG.warm_then(2, 0.05, "await"), 2, dict(kinds=("T",))),
               (PG.idle_then_submit(1, 0.05), 2, dict(kinds=("T", "P"), p_scope="parent:")),
               (PG.timeout_resize(2, 1), 2, dict(kinds=("T",), t_scope="worker", t_cur="parent:"))]
    # environment answer "Process.start() returns late": a growing resize whose fresh workers are
    # idle past their timeout before the parent has recorded them (seed C07g)
    pl += [(PG.grow_slow_start(1, 2), 1, PT), (PG.grow_slow_start(2, 3), 1, PT)]
    # the same races in an interpreter that turns warnings into errors (known finding F30)
    pl += [(PG.with_werror(PG.idle_then_submit(1, 0.05)), 1, PT),
           (PG.with_werror(PG.warm_then(1, 0.05, "await")), 1, dict(kinds=("T",)))]
    # source-line granularity (one preemption at any line of loky run by a parent thread)
    pl += simcheck.line_plan([PG.idle_then_submit(2, 0.05), PG.respawn_race(2)])
    if tier == "thorough":
        pl += simcheck.line_plan([p for p, _, _ in pl])
    return pl


def main(tier):
    return simcheck.run("C07", tier, plan(tier), ORACLE)
