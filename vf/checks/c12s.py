"""C12 (schedules) - the client side of the resource tracker under every thread interleaving.

The real ``ResourceTracker`` class (loky's subclass and the inherited stdlib methods) runs in
2-3 threads of one process under the baton scheduler of engine S; its ``os``, ``threading``,
``warnings``, ``signal`` and ``spawnv_passfds`` globals are replaced by a small model of the
operating system: pipes with reference-counted ends, tracker processes that record the requests
they receive, see end-of-file when the last write end of their pipe is closed, and can be
killed at any instant by a third thread.  Every schedule with at most `bound` preemptions is
explored; the oracle is the C12 statement: one tracker per death, never a living tracker
orphaned (its end-of-life clean-up would run while the tree is alive), a tracked operation only
fails when the tracker was killed while that very operation was in flight."""
import errno
import types

from ..q import common
from ..sim import kernel as K, shims
from ..sim.kernel import SimAbort, SimKilled
from ..sim import explore


class FakeOS:
    """Model of the few system calls the tracker client uses."""

    def __init__(self, S, real_os):
        self.S = S
        self.fds = {}          # fd -> (pipe id, "r"/"w")
        self.pipes = {}        # id -> dict(r=open?, w=open?, tracker)
        self.trackers = []     # dict(pid, pipe, alive, got, eof_alive, reaped)
        self.next_fd = 10
        self.next_pid = 5000
        self.kills = 0
        self.log = []
        self.sems = {}         # name -> linked? (the named-semaphore namespace, C13 programs)
        for k in ("name", "environ", "getpid", "WNOHANG", "O_RDONLY", "fspath", "path", "sep"):
            setattr(self, k, getattr(real_os, k))

    def _p(self, label):
        self.S.point(label=label)

    def pipe(self):
        self._p("os.pipe")
        pid = len(self.pipes)
        self.pipes[pid] = dict(r=True, w=True, tracker=None)
        r, w = self.next_fd, self.next_fd + 1
        self.next_fd += 2
        self.fds[r] = (pid, "r")
        self.fds[w] = (pid, "w")
        return r, w

    def close(self, fd):
        self._p(f"os.close")
        if fd not in self.fds:
            raise OSError(errno.EBADF, "Bad file descriptor")
        pid, end = self.fds.pop(fd)
        p = self.pipes[pid]
        p[end] = False
        self.log.append(("close", fd, end))
        t = p["tracker"]
        if end == "w" and t is not None and t["alive"]:
            # the tracker reads end-of-file: it sweeps what it knows and exits
            t["alive"] = False
            t["eof_alive"] = True
            t["swept"] = list(t["got"])

    def write(self, fd, data):
        self._p("os.write")
        if not isinstance(fd, int):
            raise TypeError(f"'{type(fd).__name__}' object cannot be interpreted as an integer")
        if fd not in self.fds or self.fds[fd][1] != "w":
            raise OSError(errno.EBADF, "Bad file descriptor")
        p = self.pipes[self.fds[fd][0]]
        t = p["tracker"]
        if t is None or not t["alive"]:
            raise BrokenPipeError(errno.EPIPE, "Broken pipe")
        t["got"].append(bytes(data))
        return len(data)

    def waitpid(self, pid, flags):
        t = [x for x in self.trackers if x["pid"] == pid]
        if not t:
            self._p("os.waitpid")
            raise ChildProcessError(errno.ECHILD, "No child processes")
        t = t[0]
        self.S.point(lambda: not t["alive"], label="os.waitpid")
        if t["reaped"]:
            raise ChildProcessError(errno.ECHILD, "No child processes")
        t["reaped"] = True
        return pid, 0

    # -- not system calls of the client: the environment --------------------------------
    def spawn(self, exe, args, passfds):
        self._p("spawn")
        rfd = [fd for fd in passfds if fd in self.fds and self.fds[fd][1] == "r"]
        if not rfd:
            raise OSError("tracker spawned without the read end of its pipe")
        pipe = self.fds[rfd[-1]][0]
        t = dict(pid=self.next_pid, pipe=pipe, alive=True, got=[], eof_alive=False, reaped=False,
                 swept=None, killed=False)
        self.next_pid += 1
        self.pipes[pipe]["tracker"] = t
        self.trackers.append(t)
        self.log.append(("spawn", t["pid"]))
        return t["pid"]

    def kill_current(self):
        """SIGKILL of the newest living tracker (the environment's move)."""
        self._p("ext.kill-tracker")
        for t in reversed(self.trackers):
            if t["alive"]:
                t["alive"] = False
                t["killed"] = True
                self.kills += 1
                self.log.append(("kill", t["pid"]))
                return t["pid"]
        return None


PROGRAMS = {
    # name: (ops of the main thread before the race, per-thread op lists, killer thread?)
    "cold-2": ([], [["reg:a"], ["reg:b"]], False),
    "cold-3": ([], [["reg:a"], ["reg:b"], ["reg:c"]], False),
    "dead-2": (["reg:x", "kill"], [["reg:a"], ["reg:b"]], False),
    "dead-2-two-ops": (["reg:x", "kill"], [["reg:a", "unreg:a"], ["reg:b", "maybe:b"]], False),
    "live-2-killer": (["reg:x"], [["reg:a"], ["reg:b"]], True),
    "live-1-killer-two-ops": (["reg:x"], [["reg:a", "unreg:a"]], True),
    "dead-getfd": (["reg:x", "kill"], [["getfd"], ["reg:b"]], False),
}
# C13: the real SemLock constructor (named semaphore created, then registered, then a finalizer)
# as the first use of the tracker from racing threads, or after the tracker died
SEM_PROGRAMS = {
    "sem-cold-2": ([], [["sem:a"], ["sem:b"]], False),
    "sem-cold-3": ([], [["sem:a"], ["sem:b"], ["sem:c"]], False),
    "sem-cold-reg": ([], [["reg:a"], ["sem:b"]], False),
    "sem-dead-2": (["sem:x", "kill"], [["sem:a"], ["sem:b"]], False),
    "sem-warm-2": (["sem:x"], [["sem:a", "sem:c"], ["sem:b"]], False),
}
PROGRAMS.update(SEM_PROGRAMS)


class Record:
    pass


def run_program(name, prefix=(), kinds=("P",)):
    pre, thr_ops, killer = PROGRAMS[name]
    rt = common.load("loky.backend.resource_tracker")
    syn = common.load("loky.backend.synchronize")
    import multiprocessing.resource_tracker as mrt
    S = K.Sched(prefix, kinds=kinds, horizon=20_000)
    K.S = S
    fos = FakeOS(S, rt.os)
    warns = []
    saved = dict(os=rt.os, mos=mrt.os, spawn=rt.spawnv_passfds, warn=rt.warnings.warn,
                 mthreading=mrt.threading, sig=rt.signal, mwarn=mrt.warnings)
    rec = Record()
    rec.ops = []

    def do(op, who):
        kind, _, arg = op.partition(":")
        e = dict(who=who, op=op, kills_before=fos.kills, exc=None)
        rec.ops.append(e)
        try:
            if kind == "reg":
                tr.register(arg, "file")
            elif kind == "unreg":
                tr.unregister(arg, "file")
            elif kind == "maybe":
                tr.maybe_unlink(arg, "file")
            elif kind == "getfd":
                e["fd"] = tr.getfd()
            elif kind == "sem":
                sems.append(syn.SemLock(1, 1, 1))       # the real constructor
            elif kind == "kill":
                fos.kill_current()
        except (SimAbort, SimKilled):
            raise
        except BaseException as ex:      # noqa
            e["exc"] = f"{type(ex).__name__}: {ex}"
        e["kills_after"] = fos.kills
        e["done"] = True

    def main():
        for op in pre:
            do(op, "main")
        ths = []
        for i, ops in enumerate(thr_ops):
            t = shims.Thread(target=lambda ops=ops, i=i: [do(o, f"t{i}") for o in ops], name=f"user#{i}")
            ths.append(t)
        if killer:
            ths.append(shims.Thread(target=lambda: do("kill", "killer"), name="killer"))
        for t in ths:
            t.start()
        for t in ths:
            t.join()
        # normal end of the process: the finalizers registered by the constructors run
        del sems[:]
        for fn, args in reversed(finalizers):
            try:
                fn(*args)
            except (SimAbort, SimKilled):
                raise
            except BaseException as ex:      # noqa
                rec.finalizer_errors.append(f"{type(ex).__name__}: {ex}")
        rec.final_fd = tr._fd
        rec.final_pid = tr._pid

    sems, finalizers = [], []
    rec.finalizer_errors = []

    class FakeSemLock:
        def __init__(self, kind, value, maxvalue, name, unlink_now):
            S.point(label="sem_open")
            if fos.sems.get(name):
                raise FileExistsError(name)
            fos.sems[name] = True
            fos.log.append(("sem_open", name))
            self.name, self.kind, self.maxvalue, self.handle = name, kind, maxvalue, len(fos.sems)

        def acquire(self, *a):
            return True

        def release(self):
            pass

    def fake_unlink(name):
        S.point(label="sem_unlink")
        if not fos.sems.get(name):
            raise FileNotFoundError(name)
        fos.sems[name] = False

    saved_syn = dict(_SemLock=syn._SemLock, resource_tracker=syn.resource_tracker, util=syn.util,
                     sem_unlink=syn.sem_unlink)
    fthreading = types.SimpleNamespace(RLock=_RLock, Lock=shims.Lock)
    fsig = types.SimpleNamespace(**{k: getattr(rt.signal, k) for k in dir(rt.signal)
                                    if k.startswith("SIG")})
    fsig.pthread_sigmask = lambda *a: None
    fsig.signal = lambda *a: None
    try:
        rt.os = mrt.os = fos
        rt.spawnv_passfds = fos.spawn
        mrt.threading = fthreading
        rt.signal = fsig
        rt.warnings = mrt.warnings = types.SimpleNamespace(warn=lambda m, *a, **k: warns.append(str(m)))
        tr = rt.ResourceTracker()
        syn._SemLock = FakeSemLock
        syn.sem_unlink = fake_unlink
        syn.resource_tracker = types.SimpleNamespace(register=tr.register, unregister=tr.unregister)
        syn.util = types.SimpleNamespace(
            debug=lambda *a: None, register_after_fork=lambda *a: None,
            Finalize=lambda obj, fn, args=(), exitpriority=None: finalizers.append((fn, args)))
        rec.verdict = S.run(main)
    finally:
        K.S = None
        for k, v in saved_syn.items():
            setattr(syn, k, v)
        rt.os, mrt.os = saved["os"], saved["mos"]
        rt.spawnv_passfds = saved["spawn"]
        mrt.threading = saved["mthreading"]
        rt.signal = saved["sig"]
        import warnings as _w
        rt.warnings = mrt.warnings = _w
    rec.os = fos
    rec.warns = warns
    rec.alts_log = S.alts_log
    rec.devs = S.devs
    rec.internal_error = S.internal_error
    rec.blocked = S.blocked_at_end
    rec.thread_errors = S.thread_errors
    rec.states = S.states
    rec.transitions = S.transitions
    return rec


class _RLock(shims.RLock):
    def _recursion_count(self):
        return self.count if self.owner is K.S.cur else 0


def judge(name, rec):
    """-> list of (signature, message)"""
    v = []
    fos = rec.os
    if rec.verdict != "completed":
        v.append((f"C12:S:{rec.verdict}", f"[{name}] execution ended {rec.verdict}: blocked={rec.blocked} "
                                         f"errors={rec.thread_errors}"))
        return v
    for e in rec.ops:
        if e.get("exc") and e["kills_after"] == e["kills_before"]:
            v.append((f"C12:S:operation-failed:{e['exc'].split(':')[0]}",
                      f"[{name}] {e['who']} {e['op']} raised {e['exc']} although no tracker was "
                      f"killed while it ran"))
    orphans = [t["pid"] for t in fos.trackers if t["eof_alive"]]
    if orphans:
        t = [t for t in fos.trackers if t["eof_alive"]][0]
        v.append(("C12:S:live-tracker-orphaned",
                  f"[{name}] the write end of the living tracker {t['pid']} was closed: it ran its "
                  f"end-of-life clean-up over {[g.decode().strip() for g in t['swept']]} while the "
                  f"process is alive (log {fos.log})"))
    if len(fos.trackers) > 1 + fos.kills or (not fos.kills and len(fos.trackers) > 1):
        v.append((f"C12:S:redundant-tracker:{len(fos.trackers)}-for-{fos.kills}-deaths",
                  f"[{name}] {len(fos.trackers)} trackers launched for {fos.kills} deaths: {fos.log}"))
    living = [t for t in fos.trackers if t["alive"]]
    if len(living) > 1:
        v.append(("C12:S:two-living-trackers", f"[{name}] {[t['pid'] for t in living]} alive at "
                                               f"the end: {fos.log}"))
    if living and (rec.final_pid != living[-1]["pid"] or rec.final_fd not in fos.fds):
        v.append(("C12:S:client-not-bound-to-living-tracker",
                  f"[{name}] client fd={rec.final_fd} pid={rec.final_pid}, living tracker "
                  f"{living[-1]['pid']}, open fds {sorted(fos.fds)}"))
    # requests of operations that completed after the last death reach the living tracker
    if living:
        got = b"".join(living[-1]["got"]).decode()
        for e in rec.ops:
            kind, _, arg = e["op"].partition(":")
            if kind == "reg" and not e.get("exc") and e["kills_before"] == fos.kills \
                    and f"REGISTER:{arg}:file" not in got:
                v.append(("C12:S:registration-lost",
                          f"[{name}] {e['who']} registered {arg!r} after the last tracker death "
                          f"but the living tracker never received it (it got {got.split()})"))
    # C13: once the process has ended normally and the tracker has swept what it was told about,
    # no named semaphore is left (a name is either unlinked by its finalizer or known to a
    # tracker that outlives the process)
    known = b"".join(g for t in fos.trackers if not t["killed"] for g in t["got"]).decode()
    for sname, linked in fos.sems.items():
        if linked and f"REGISTER:{sname}:semlock" not in known:
            v.append(("C13:S:sem-outlives-tree:never-registered",
                      f"[{name}] named semaphore {sname} was created but neither unlinked at the "
                      f"normal end of the process nor made known to a surviving tracker: it stays "
                      f"for ever (ops {[(e['who'], e['op'], e.get('exc')) for e in rec.ops]})"))
    # one warning per relaunch after a death
    relaunch_warn = sum(1 for w in rec.warns if "died unexpectedly" in w)
    if relaunch_warn > fos.kills:
        v.append((f"C12:S:spurious-death-warning", f"[{name}] {relaunch_warn} 'died unexpectedly' "
                                                   f"warnings for {fos.kills} deaths"))
    # leaked descriptors: only the write end of the current tracker stays open
    extra = [fd for fd in fos.fds if fd != rec.final_fd]
    if extra:
        v.append(("C12:S:fd-leak", f"[{name}] descriptors {extra} left open besides the tracker fd "
                                  f"{rec.final_fd}: {fos.log}"))
    return v


def explore_all(bound, deeper=None, programs=None):
    """Every schedule of every program with at most `bound` preemptions (stateless DFS);
    deeper = {program: bound} overrides the bound for the small programs."""
    out = dict(executions=0, violations=[], states=set(), transitions=set(), per_program={},
               internal=[], outcomes=set(), bounds={})
    default_bound = bound
    for name in (programs or [p for p in PROGRAMS if p not in SEM_PROGRAMS]):
        bound = (deeper or {}).get(name, default_bound)
        out["bounds"][name] = bound
        stack = [()]
        n = 0
        while stack:
            prefix = stack.pop()
            rec = run_program(name, prefix)
            n += 1
            if rec.internal_error:
                out["internal"].append(dict(program=name, prefix=[list(p) for p in prefix],
                                            error=rec.internal_error))
                continue
            out["states"] |= rec.states
            out["transitions"] |= rec.transitions
            out["outcomes"].add((name, rec.verdict, len(rec.os.trackers), rec.os.kills,
                                 tuple(bool(e.get("exc")) for e in rec.ops)))
            for sig, msg in judge(name, rec):
                out["violations"].append(dict(signature=sig, msg=msg, program=name,
                                              prefix=[list(p) for p in prefix]))
            if len(prefix) < bound:
                stack.extend(explore.children(prefix, rec.alts_log))
        out["per_program"][name] = n
        out["executions"] += n
    return out


def replay(v):
    rec = run_program(v["program"], tuple(tuple(p) for p in v["prefix"]))
    return judge(v["program"], rec)
