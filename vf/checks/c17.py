"""C17 - cpu_count is the minimum of all applicable limits and at least 1.

The complete product of a small domain per input (OS count, affinity source, cgroup layout
and quota/period ratio, LOKY_MAX_CPU_COUNT, physical-core probe outcome, only_physical_cores)
is run through the real ``loky.backend.context.cpu_count`` with ``os``, ``open``,
``subprocess``, ``psutil``, ``warnings`` and ``traceback`` substituted, twice per
configuration (cache / one-warning clause), against an independent reference formula."""
import io
import itertools
import math
import sys
import types

from .. import framework
from ..q import common

OS_COUNTS = [None, 1, 2, 4, 8]
AFFINITY = [("sched", 1), ("sched", 2), ("sched", 4), ("sched", 16), ("sched-NI-psutil", 3),
            ("psutil", 2), ("psutil-noattr", 0), ("none", 0)]
CGROUPS = [("none", 0, 0), ("v2max", 0, 100000), ("v1neg", -1, 100000)]
for ratio_q, ratio_p in [(10000, 100000), (50000, 100000), (100000, 100000), (150000, 100000),
                         (200000, 100000), (200001, 100000), (370000, 100000), (1600000, 100000)]:
    CGROUPS += [("v2", ratio_q, ratio_p), ("v1", ratio_q, ratio_p)]
CGROUPS += [("both", 300000, 100000)]          # v2 file wins over v1 files
OVERRIDE = [None, "0", "-1", "1", "3", "100"]
# malformed values of LOKY_MAX_CPU_COUNT and unreadable cgroup files: enumerated separately
# (the property does not define them; the check only demands that cpu_count() does not
# return less than 1 or more than the OS count silently)
PHYS = [("lscpu", 2), ("lscpu", 6), ("lscpu-fails-cpuinfo", 3), ("zero", 0), ("raises", 0)]
ONLY = [False, True]


def reference(cfg):
    osc, aff, cg, ov, phys, only = cfg
    n_os = osc or 1
    lims = []
    kind, k = aff
    if kind in ("sched", "sched-NI-psutil", "psutil"):
        lims.append(k)
    kindc, q, p = cg
    if kindc in ("v2", "v1", "both") and q > 0 and p > 0:
        lims.append(math.ceil(q / p))
    if ov is not None:
        lims.append(int(ov))
    user = min(lims + [n_os])
    logical = max(1, min(n_os, user))
    if not only:
        return logical, 0
    if user < n_os:
        return logical, 0
    pk, pv = phys
    if pk in ("lscpu", "lscpu-fails-cpuinfo"):
        return pv, 0
    return logical, 1          # detection failed: logical value, one warning in total


def run(ctx, cfg, saved, keep_cache=False):
    osc, aff, cg, ov, phys, only = cfg
    fos = types.SimpleNamespace()
    fos.cpu_count = lambda: osc
    kind, k = aff
    if kind == "sched":
        fos.sched_getaffinity = lambda pid: set(range(k))
    elif kind == "sched-NI-psutil":
        def ga(pid):
            raise NotImplementedError
        fos.sched_getaffinity = ga
    fos.environ = {} if ov is None else {"LOKY_MAX_CPU_COUNT": ov}
    files = {}
    kindc, q, p = cg
    if kindc == "v2max":
        files["/sys/fs/cgroup/cpu.max"] = "max 100000\n"
    elif kindc == "v2":
        files["/sys/fs/cgroup/cpu.max"] = f"{q} {p}\n"
    elif kindc in ("v1", "v1neg"):
        files["/sys/fs/cgroup/cpu/cpu.cfs_quota_us"] = f"{q}\n"
        files["/sys/fs/cgroup/cpu/cpu.cfs_period_us"] = f"{p}\n"
    elif kindc == "both":
        files["/sys/fs/cgroup/cpu.max"] = f"{q} {p}\n"
        files["/sys/fs/cgroup/cpu/cpu.cfs_quota_us"] = "100000\n"
        files["/sys/fs/cgroup/cpu/cpu.cfs_period_us"] = "100000\n"
    fos.path = types.SimpleNamespace(exists=lambda f: f in files)
    warns = []
    pk, pv = phys

    def sp_run(cmd, **kw):
        if cmd[0] == "lscpu":
            if pk == "lscpu":
                return types.SimpleNamespace(stdout="# comment\n" + "".join(f"{i}\n{i}\n" for i in range(pv)))
            if pk == "zero":
                return types.SimpleNamespace(stdout="# only comments\n")
            raise OSError("lscpu missing")
        if cmd[0] == "cat":
            if pk == "lscpu-fails-cpuinfo":
                return types.SimpleNamespace(stdout="".join(
                    f"processor: {i}\ncore id\t: {i % pv}\n" for i in range(2 * pv)))
            raise OSError("no cpuinfo")
        raise OSError(cmd)

    if kind in ("sched-NI-psutil", "psutil"):
        fps = types.SimpleNamespace(Process=lambda: types.SimpleNamespace(
            cpu_affinity=lambda: list(range(k))))
    elif kind == "psutil-noattr":
        fps = types.SimpleNamespace(Process=lambda: types.SimpleNamespace())
    else:
        fps = None
    ctx.os = fos
    ctx.__dict__["open"] = lambda f: io.StringIO(files[f])
    ctx.subprocess = types.SimpleNamespace(run=sp_run)
    ctx.warnings = types.SimpleNamespace(warn=lambda m, *a, **kw: warns.append(str(m)[:80]))
    ctx.traceback = types.SimpleNamespace(print_tb=lambda *a, **kw: None)
    ctx.sys = types.SimpleNamespace(platform="linux", version_info=sys.version_info)
    if not keep_cache:
        ctx.physical_cores_cache = None
    old_ps = sys.modules.get("psutil", "absent")
    sys.modules["psutil"] = fps
    try:
        r1 = ctx.cpu_count(only_physical_cores=only)
        r2 = ctx.cpu_count(only_physical_cores=only)
        r3 = ctx.cpu_count()                       # logical value unaffected by the cache
        return r1, r2, r3, [w for w in warns if "physical cores" in w]
    except BaseException as e:
        return ("EXC", type(e).__name__, str(e)[:80]), None, None, warns
    finally:
        if old_ps == "absent":
            sys.modules.pop("psutil", None)
        else:
            sys.modules["psutil"] = old_ps
        for k_, v in saved.items():
            setattr(ctx, k_, v)
        ctx.__dict__.pop("open", None)


def main(tier):
    rep = framework.Report("C17", tier, "exploration")
    ctx = common.load("loky.backend.context")
    saved = {k: getattr(ctx, k) for k in ("os", "subprocess", "warnings", "traceback", "sys")}
    n = 0
    distinct_results = set()
    samples = []
    space = itertools.product(OS_COUNTS, AFFINITY, CGROUPS, OVERRIDE, PHYS, ONLY)
    for cfg in space:
        n += 1
        r1, r2, r3, warns = run(ctx, cfg, saved)
        exp, nwarn = reference(cfg)
        exp_logical, _ = reference(cfg[:5] + (False,))
        distinct_results.add((r1, exp))
        if n % 7919 == 1 and len(samples) < 5:
            samples.append(dict(config=repr(cfg), result=r1, expected=exp))
        if r1 != exp or r2 != exp:
            rep.add_violation(dict(
                signature=f"C17:value:only={cfg[5]}:cg={cfg[2][0]}:aff={cfg[1][0]}:ov={cfg[3]}"
                          f":phys={cfg[4][0]}",
                msg=f"cpu_count(only_physical_cores={cfg[5]}) = {r1} then {r2}, expected {exp} "
                    f"for os={cfg[0]} affinity={cfg[1]} cgroup={cfg[2]} override={cfg[3]} "
                    f"physical={cfg[4]}", config=repr(cfg)))
        elif r3 != exp_logical:
            rep.add_violation(dict(signature="C17:logical-after-physical",
                                   msg=f"cpu_count() after a physical query = {r3}, expected "
                                       f"{exp_logical} for {cfg}", config=repr(cfg)))
        elif len(warns) != nwarn:
            rep.add_violation(dict(signature=f"C17:warnings:{len(warns)}vs{nwarn}",
                                   msg=f"{len(warns)} 'physical cores' warnings over two calls, "
                                       f"expected {nwarn}, for {cfg}", config=repr(cfg)))
    # histories of two configurations in ONE process: the machine (OS count, physical cores)
    # stays, the limits change between the calls - the caches must not carry a stale answer
    nh = 0
    for osc, phys in itertools.product(OS_COUNTS, PHYS):
        prime = (osc, ("none", 0), ("none", 0, 0), None, phys, True)
        for aff, cg, ov, only in itertools.product(AFFINITY, CGROUPS, OVERRIDE, ONLY):
            cfg = (osc, aff, cg, ov, phys, only)
            run(ctx, prime, saved)                       # unrestricted query fills the caches
            r1, r2, r3, _w = run(ctx, cfg, saved, keep_cache=True)
            n += 1
            nh += 1
            exp, _ = reference(cfg)
            exp_logical, _ = reference(cfg[:5] + (False,))
            if r1 != exp or r2 != exp or r3 != exp_logical:
                rep.add_violation(dict(
                    signature=f"C17:after-unrestricted-query:only={only}:cg={cg[0]}:aff={aff[0]}:ov={ov}"
                              f":phys={phys[0]}",
                    msg=f"after an unrestricted cpu_count(only_physical_cores=True) in the same "
                        f"process, cpu_count(only_physical_cores={only}) = {r1} then {r2} (logical "
                        f"{r3}), expected {exp} (logical {exp_logical}) for os={osc} affinity={aff} "
                        f"cgroup={cg} override={ov} physical={phys}", config=repr(cfg)))
    rep.coverage = dict(
        two_step_histories=nh,
        evaluations=n, distinct_nontrivial=n, samples=samples, exhaustive=True,
        distinct_result_pairs=len(distinct_results),
        rule="full product of OS counts x affinity sources x cgroup layouts/ratios x overrides x "
             "physical-probe outcomes x only_physical_cores; every configuration is distinct; "
             "each is evaluated three times (two identical calls + a logical call) on the real "
             "cpu_count with a substituted environment and compared with an independently "
             "written reference of the documented formula; plus every configuration evaluated after "
             "an unrestricted only_physical_cores query in the same process (same machine, limits "
             "imposed afterwards)",
        domain_sizes=dict(os=len(OS_COUNTS), affinity=len(AFFINITY), cgroup=len(CGROUPS),
                          override=len(OVERRIDE), physical=len(PHYS), only=2))
    rep.assumptions = ["linux code path (sys.platform substituted); lscpu / cpuinfo / psutil / "
                       "cgroup files are modelled at the level of the values loky reads from them"]
    code = rep.finish()
    print(f"[C17] tier={tier} configurations={n} violations={len(rep.violations)}")
    return code
