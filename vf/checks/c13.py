"""C13 - no named semaphore or tracked resource outlives its process tree.

(S) every explored execution: each created semaphore is registered exactly once by its creator,
unlinked and unregistered when collected, nothing stays linked or counted once the simulated
interpreter exit completed.  (R) real trees: histories x endings (normal exit, uncaught
exception, SIGKILL of the parent, broken pool), /dev/shm listed when the root ends and until
the tracker has cleaned up after the tree."""
from .. import framework
from ..sim import explore, programs as PG

ORACLE = "vf.sim.props:c13"


def s_plan(tier):
    A = dict(kinds=("P", "T", "K"))
    PT = dict(kinds=("P", "T"))
    pl = [(PG.basic(2, None), 1, A), (PG.lifecycle_twice(1, 0.05), 1, PT),
          (PG.reusable_resize(2, 3, 0.05), 1, PT), (PG.reusable_replace(None, False), 1, PT),
          (PG.die_then_submit(2), 1, PT), (PG.one_task(2, None, "exit"), 1, PT),
          (PG.one_task(1, 0.05, "del"), 1, PT), (PG.forced(2, False, 2), 1, PT)]
    if tier == "thorough":
        pl += [(PG.basic(2, 0.05), 2, PT), (PG.lifecycle_twice(2, None), 1, A)]
    return pl


def main(tier):
    rep = framework.Report("C13", tier, "fault_enumeration")
    pool = explore.Pool(ORACLE)
    total = explore.Summary()
    try:
        for prog, bound, opts in s_plan(tier):
            total.merge(explore.explore(pool, prog, bound, opts, ORACLE))
    finally:
        pool.close()
    for v in total.violations:
        rep.add_violation(v)
    rep.internal = list(total.internal)
    # the real SemLock constructor against the real tracker client, every thread schedule
    from . import c12s
    sr = c12s.explore_all(2 if tier == "quick" else 4, {"sem-cold-2": 4 if tier == "quick" else 6},
                          programs=list(c12s.SEM_PROGRAMS))
    for v in sr["violations"]:
        if v["signature"].startswith("C13:"):
            rep.add_violation(dict(signature=v["signature"], msg=v["msg"], program=v["program"],
                                   prefix=v["prefix"], engine="c12s"))
    for i in sr["internal"]:
        rep.internal.append(i)
    from ..real import treereal
    r = treereal.run_c13(tier)
    for sig, msg, case in r["violations"]:
        rep.add_violation(dict(signature=sig, msg=msg, case=case))
    rep.coverage = dict(
        evaluations=total.executions + r["cases"], distinct_nontrivial=total.executions + r["cases"],
        samples=(r["samples"] + total.samples)[:5], simulated_executions=total.executions,
        real_cases=r["cases"], states=len(total.states), transitions=len(total.transitions),
        constructor_schedules=sr["executions"], constructor_schedules_per_program=sr["per_program"],
        exhaustive=False,
        rule="(R) product of 5 histories x 3-4 endings (+ unreleased primitives) on real process "
             "trees, each a distinct case; (S) every execution within deviation bound 1 "
             "(schedules, timeouts, worker kills) of 8 lifecycle programs, tracker message log "
             "checked against the simulated semaphore namespace; (C) the real SemLock "
             "constructor + real tracker client in 2-3 racing threads over a modelled OS, every "
             "schedule with <= 2 (quick) / 4 (thorough) preemptions: no name left unlinked and "
             "unknown to a surviving tracker at the normal end of the process")
    rep.assumptions = ["after the root ends the harness ends the remaining workers itself (the "
                       "property speaks of the tree's end) and keeps the tracker alive",
                       "kill of the parent at arbitrary points is covered on real processes only "
                       "at its end-of-history point"]
    code = rep.finish()
    print(f"[C13] tier={tier} simulated={total.executions} real_cases={r['cases']} "
          f"violations={len(rep.violations)}")
    return code
