"""C02 - abrupt worker death is always detected and fails the pool loudly."""
from ..sim import programs as PG, simcheck

ORACLE = "vf.sim.props:c02"


def plan(tier):
    b = 1
    K = dict(kinds=("P", "T", "K"))
    pl = [(PG.kill_mix(2, None), b, K), (PG.kill_mix(2, 0.05), b, K),
          (PG.kill_mix(1, None, init="ok"), b, K), (PG.kill_gate(2), b, K),
          (PG.die_then_submit(2), b, dict(kinds=("P", "T"))),
          (PG.big_result(1), b, K), (PG.cancel_prog(1), b, K),
          (PG.resubmit_from_callback("die", 2), b, dict(kinds=("P", "T"))),
          (PG.idle_then_die(1), b, dict(kinds=("P", "T"))),
          (PG.idle_then_die(1), b, dict(kinds=("P", "T"), starve="eager:parent:manager")),
          (PG.idle_then_die(2), b, dict(kinds=("P", "T"), starve="eager:parent:manager")),
          (PG.busy_manager_idle_worker(2), b, dict(kinds=("K",))),
          (PG.kill_mix(3, None), b, dict(kinds=("K",))),
          (PG.reusable_resize(2, 3, None), b, dict(kinds=("K",)))]
    for code in (-11, -15, 3):
        pl.append((PG.kill_mix(2, None), 1, dict(kinds=("K",), kill_code=code)))
    # "by any signal or exit status": every signal number and every exit status
    for code in list(range(-64, 0)) + list(range(0, 256)):
        pl.append((PG.die_code(code, 2 if code % 2 else 1), 0, dict(kinds=("P",))))
    if tier == "thorough":
        for code in (-35, -64, -34, -1, 0, 1, 255, 254, 127):
            pl.append((PG.die_code(code, 2), 1, dict(kinds=("P", "T"))))
        pl += [(PG.kill_mix(2, None), 2, dict(kinds=("P", "K"))),
               (PG.kill_mix(2, 0.05), 2, dict(kinds=("T", "K"))),
               (PG.kill_gate(2), 2, dict(kinds=("K",))),
               (PG.cancel_prog(1), 2, dict(kinds=("P", "K")))]
    return pl


def real_part(tier):
    """Real-process fault enumeration (engine R): every fault label x worker x cause on the
    kill3 scenario, judged by the same property; also the conformance count: real outcomes
    that belong to the outcome classes engine S produced for kills."""
    from ..real import faults
    out = faults.run_all(tier)
    viols = []
    fired = 0
    for o in out:
        fired += bool(o["fired"])
        for sig, msg in o["violations"]:
            viols.append(dict(signature=sig, msg=msg, plan=o["plan"], hooks=o["hooks"]))
    return dict(count=len(out), fired=fired,
                classes=sorted({repr(o["cls"]) for o in out}),
                labels=[o["plan"]["label"] for o in out],
                _real=[(o["plan"]["label"], o["cls"]) for o in out
                       if o["fired"] and o["cls"] and o["plan"]["label"] not in ("rq.partial", "double-death")]), viols


def sim_classes(total):
    """Outcome classes (per-future kind for a,b,c / broken type) that engine S produced for the
    kill-mix programs, to compare the real fault runs with (every behaviour observed on the
    implementation should be a behaviour of the model)."""
    out = set()
    for cls in total.classes:
        try:
            verdict, futs, broken = cls[0], cls[1], cls[2]
        except Exception:
            continue
        keys = {k: (kind, exc) for (k, kind, exc) in futs}
        if not all(k in keys for k in ("a", "b", "c")) or verdict != "completed":
            continue
        kinds = tuple("bpp" if keys[k][0] == "exc" and keys[k][1] in ("TerminatedWorkerError",
                                                                        "BrokenProcessPool")
                      else keys[k][0] for k in ("a", "b", "c"))
        out.add((kinds, broken[-1] if broken else None))
    return out


def main(tier):
    conf, viols = real_part(tier)
    real = conf.pop("_real")

    def post(total):
        sc = sim_classes(total)
        matched, unmatched = [], []
        for label, cls in real:
            key = (tuple(cls[0]), cls[1])
            (matched if key in sc else unmatched).append([label, repr(key)])
        return dict(real_outcomes_in_simulated_set=len(matched),
                    real_outcomes_not_in_simulated_set=unmatched,
                    simulated_outcome_classes=len(sc))
    return simcheck.run("C02", tier, plan(tier), ORACLE, conformance=conf, extra_violations=viols,
                        post_summary=post)
