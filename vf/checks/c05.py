"""C05 - graceful shutdown drains all submitted work and leaves nothing behind."""
from ..sim import programs as PG, simcheck

ORACLE = "vf.sim.props:c05"


def plan(tier):
    PT = dict(kinds=("P", "T"))
    pl = []
    for form in ("wait", "nowait", "with", "del", "exit"):
        for k in (0, 1, 3):
            pl.append((PG.shutdown_form(k, form, 2, None), 1, PT))
        pl.append((PG.shutdown_form(2, form, 1, 0.05), 1, PT))
    pl += [(PG.shutdown_form(4, "wait", 3, None, "reusable", 1), 1, PT),
           (PG.shutdown_form(2, "wait", 5, None, "reusable", 1), 1, dict(kinds=("T",))),
           (PG.shutdown_form(1, "exit", 4, 0.05, "reusable", 1), 1, dict(kinds=("T",))),
           (PG.shutdown_form(2, "nowait", 3, 0.05, "reusable", 1), 1, PT),
           (PG.shutdown_late_error(1), 1, PT), (PG.submit_cancel_shutdown(1, True), 1, PT),
           (PG.shutdown_form(2, "wait", 2, None), 1, dict(kinds=("K",), kill_when="after_shutdown")),
           (PG.shutdown_form(2, "exit", 2, 0.05), 1, dict(kinds=("K",), kill_when="after_shutdown"))]
    # shutdown from a done-callback (manager thread), from two threads, from a with block whose
    # body raised
    pl += [(PG.shutdown_in_callback("shutdown"), 1, PT), (PG.shutdown_in_callback("shutdown_wait"), 1, PT),
           (PG.with_body_raises(2, 2), 1, PT), (PG.with_body_raises(3, 1), 1, PT),
           (PG.shutdown_twice(2, True), 1, PT), (PG.shutdown_twice(2, False), 1, PT)]
    pl += [(PG.nowait_then_wait(3, 2, None), 1, PT), (PG.nowait_then_wait(2, 1, 0.05), 1, PT),
           (PG.nowait_then_wait(3, 2, None, "with"), 0, PT)]
    # submit racing with shutdown from another thread (either raises or the task runs):
    # starvation policy for the submitting thread + two preemptions
    pl += [(PG.submit_vs_shutdown(1, True), 2, dict(kinds=("P",), starve="parent:user",
                                                    p_scope="parent:")),
           (PG.submit_vs_shutdown(1, False), 1, dict(kinds=("P", "T"), starve="parent:user")),
           (PG.submit_vs_shutdown(2, True), 1, PT)]
    if tier == "thorough":
        pl += [(PG.shutdown_form(1, f, 1, 0.05), 2, PT) for f in ("wait", "nowait", "del", "exit")]
        pl += [(PG.shutdown_form(2, "wait", 2, None), 2, dict(kinds=("P",)))]
    # source-line granularity (one preemption at any line of loky run by a parent thread)
    pl += simcheck.line_plan([PG.submit_vs_shutdown(1, True), PG.submit_vs_shutdown(1, False),
                              PG.shutdown_form(1, "nowait", 2, None), PG.shutdown_twice(2, True),
                              PG.shutdown_in_callback("shutdown")])
    if tier == "thorough":
        pl += simcheck.line_plan([p for p, _, _ in pl])
        pl += simcheck.line_plan([PG.submit_vs_shutdown(1, True)], bound=2, starve="parent:user")
    return pl


def main(tier):
    return simcheck.run("C05", tier, plan(tier), ORACLE)
