"""C15 - serialisation customisation is scoped to where it was requested and is faithful.

BFS over histories of pickler selections and dumps() calls with different reducer maps (state =
pickler name + snapshots of the three process-wide registries), fidelity of the built-in
reducers on an enumerated family of callables under both back-ends, executor/queue wiring of
job/result reducers, and the pickler recorded in a call item."""
import collections
import copyreg
import functools
import itertools
import pickle

from .. import framework
from ..q import common


class A:
    def __init__(self, tag="default"):
        self.tag = tag

    def meth(self, x):
        return ("A.meth", self.tag, x)

    @classmethod
    def cm(cls, x):
        return ("A.cm", cls.__name__, x)

    @staticmethod
    def sm(x):
        return ("A.sm", x)

    def __eq__(self, o):
        return type(o) is A and o.tag == self.tag


class ASub(A):
    def meth(self, x):
        return ("ASub.meth", self.tag, x)

    def __eq__(self, o):
        return type(o) is ASub and o.tag == self.tag


class B:
    def __init__(self, tag="default"):
        self.tag = tag


def mkA(tag):
    return A(tag)


def mkB(tag):
    return B(tag)


def r1(a):
    return mkA, ("r1",)


def r2(a):
    return mkA, ("r2",)


def r3(b):
    return mkB, ("r3",)


REDUCERS = {"none": None, "A:r1": {A: r1}, "A:r2+B:r3": {A: r2, B: r3}}
PICKLERS = [None, "", "cloudpickle", "pickle"]


def _user_marker(name):
    return ("user-reduced", name)


def _user_reduce(obj):
    return _user_marker, (type(obj).__name__,)


def f3(a, b=0, c=0):
    return ("f3", a, b, c)


def snapshot(red):
    import cloudpickle
    cp_dt = getattr(cloudpickle.CloudPickler, "dispatch_table", None)
    return (tuple(sorted((repr(k), repr(v)) for k, v in copyreg.dispatch_table.items())),
            tuple(sorted((repr(k), repr(v)) for k, v in dict(cp_dt).items())) if cp_dt is not None else None,
            tuple(sorted((repr(k), repr(v)) for k, v in red._dispatch_table.items())))


def expected_tag(rname, cls):
    R = REDUCERS[rname]
    if R and cls in R:
        return {r1: "r1", r2: "r2", r3: "r3"}[R[cls]]
    return "default"


def callables():
    a = A("inst")
    out = [("bound-method", a.meth, [(1,), (2,)]),
           ("class-method", A.cm, [(1,)]),
           ("descr-list.append", list.append, None),
           ("descr-int.__add__", int.__add__, [(1, 2)]),
           ("descr-str.upper", str.upper, [("ab",)])]
    for na, nk in itertools.product(range(3), range(3)):
        args = (1, 2)[:na]
        kw = dict(list({"b": 5, "c": 6}.items())[:nk]) if na < 2 else dict(list({"c": 6}.items())[:min(nk, 1)])
        if na == 0:
            probe = [(9,)]
        else:
            probe = [()]
        try:
            p = functools.partial(f3, *args, **kw)
            p(*probe[0])
        except TypeError:
            continue
        out.append((f"partial-{na}args-{len(kw)}kw", p, probe))
    sub = ASub("sub")
    out += [("static-method", A.sm, [(1,)]), ("static-method-via-instance", a.sm, [(2,)]),
            ("class-method-via-instance", a.cm, [(1,)]), ("class-method-of-subclass", ASub.cm, [(1,)]),
            ("bound-method-overridden-in-subclass", sub.meth, [(1,)]),
            ("inherited-method-via-super-class-lookup", functools.partial(A.meth, sub), [(3,)]),
            ("bound-builtin-method", [1, 2].count, [(1,)]),
            ("descr-dict.get", dict.get, [({"k": 1}, "k")]),
            ("partial-of-partial-of-bound-method",
             functools.partial(functools.partial(sub.meth), 4), [()]),
            ("partial-of-static-method", functools.partial(A.sm, 5), [()])]
    out.append(("nested-partial", functools.partial(functools.partial(f3, 1), b=2), [()]))
    out.append(("partial-of-bound-method", functools.partial(a.meth, 7), [()]))
    out.append(("partial-of-descriptor", functools.partial(int.__add__, 3), [(4,)]))
    return out


def main(tier):
    rep = framework.Report("C15", tier, "exploration")
    red = common.load("loky.backend.reduction")
    pe = common.load("loky.process_executor")
    n = 0
    samples = []

    def viol(sig, msg, case):
        rep.add_violation(dict(signature=f"C15:{sig}", msg=f"{msg} [case {case}]", case=repr(case)))

    # ---- (1) non-interference: BFS over histories -------------------------------------------
    base = snapshot(red)
    depth = 3 if tier == "quick" else 4
    events = [("set", p) for p in PICKLERS] + [("dumps", r, c) for r in REDUCERS for c in ("A", "B")]
    red.set_loky_pickler(None)
    seen = set()
    frontier = collections.deque([()])
    states = 0
    while frontier:
        hist = frontier.popleft()
        for ev in events:
            h = hist + (ev,)
            # replay the history from a fresh pickler selection
            red.set_loky_pickler("cloudpickle")
            cur = "cloudpickle"
            for e in h:
                n += 1
                if e[0] == "set":
                    red.set_loky_pickler(e[1])
                    cur = "pickle" if e[1] == "pickle" else "cloudpickle"
                    if red.get_loky_pickler_name() != cur:
                        viol("pickler-name", f"after set_loky_pickler({e[1]!r}) the pickler is "
                             f"{red.get_loky_pickler_name()!r}", h)
                else:
                    cls = A if e[2] == "A" else B
                    obj = cls("orig")
                    try:
                        back = pickle.loads(bytes(red.dumps(obj, reducers=REDUCERS[e[1]])))
                        got = back.tag if REDUCERS[e[1]] and cls in REDUCERS[e[1]] else \
                            ("default" if back.tag == "orig" else back.tag)
                    except BaseException as ex:
                        got = f"EXC:{type(ex).__name__}"
                    exp = expected_tag(e[1], cls)
                    if got != exp:
                        viol(f"wrong-reducer:{e[1]}:{e[2]}", f"dumps({e[2]}, reducers={e[1]}) "
                             f"under {cur} used {got!r}, expected {exp!r}", h)
                snap = snapshot(red)
                if snap != base:
                    which = [nm for nm, a, b in zip(("copyreg", "cloudpickle", "loky"), snap, base) if a != b]
                    viol(f"registry-changed:{'+'.join(which)}", f"process-wide registry {which} "
                         f"changed by {e}", h)
                    base_restore(red, base)
            key = (red.get_loky_pickler_name(),)
            st = (key, h[-1], len(h))
            states += 1
            if len(h) < depth:
                frontier.append(h)
        if len(rep.violations) > 100:
            break
    red.set_loky_pickler(None)

    # ---- (2) fidelity of the built-in reducers under both back-ends -------------------------
    for pk in ("cloudpickle", "pickle"):
        red.set_loky_pickler(pk)
        for name, obj, probes in callables():
            n += 1
            try:
                back = pickle.loads(bytes(red.dumps(obj)))
            except BaseException as ex:
                viol(f"round-trip-fails:{name}", f"dumps/loads of {name} under {pk}: {ex!r}", (pk, name))
                continue
            if probes is None:
                l1, l2 = [], []
                obj(l1, 3)
                back(l2, 3)
                ok = l1 == l2 == [3]
            else:
                ok = all(_same(obj, back, p) for p in probes)
            if isinstance(obj, functools.partial) and ok:
                ok = (back.args == obj.args and dict(back.keywords) == dict(obj.keywords))
            if not ok:
                viol(f"fidelity:{name}", f"{name} does not behave the same after a round trip "
                     f"under {pk}", (pk, name))
            if len(samples) < 4:
                samples.append(dict(pickler=pk, object=name))
    red.set_loky_pickler(None)

    # ---- (2b) a reducer given for a type loky has its own reducer for wins over the built-in,
    # for that pickler only
    import types as _types
    a_ = A("inst")
    builtin_kinds = [("partial", functools.partial, functools.partial(f3, 1, b=2)),
                     ("bound-method", _types.MethodType, a_.meth),
                     ("class-method", _types.MethodType, A.cm),
                     ("method-descriptor", type(list.append), list.append),
                     ("wrapper-descriptor", type(int.__add__), int.__add__)]
    for pk in ("cloudpickle", "pickle"):
        red.set_loky_pickler(pk)
        for kname, typ, obj in builtin_kinds:
            n += 1
            try:
                back = pickle.loads(bytes(red.dumps(obj, reducers={typ: _user_reduce})))
            except BaseException as ex:      # noqa
                viol(f"user-reducer-on-builtin-kind-fails:{kname}", f"{pk}: {ex!r}", (pk, kname))
                continue
            if back != ("user-reduced", typ.__name__):
                viol(f"user-reducer-ignored:{kname}",
                     f"dumps({kname}, reducers={{{typ.__name__}: user}}) under {pk} did not use the "
                     f"given reducer (got {back!r})", (pk, kname))
            # and the next pickler without reducers still uses the built-in one
            try:
                again = pickle.loads(bytes(red.dumps(obj)))
                if again == ("user-reduced", typ.__name__):
                    viol(f"user-reducer-leaked:{kname}", f"{pk}: a later dumps() without reducers "
                         f"still used the user's reducer", (pk, kname))
            except BaseException as ex:      # noqa
                viol(f"round-trip-fails-after-user-reducer:{kname}", f"{pk}: {ex!r}", (pk, kname))
    red.set_loky_pickler(None)

    # ---- (3) executor wiring ------------------------------------------------------------------
    jr, rr = {A: r1}, {B: r3}
    empty = {}
    for job, res in itertools.product([None, jr, empty], [None, rr, empty]):
        n += 1
        ex = pe.ProcessPoolExecutor(max_workers=1, job_reducers=job, result_reducers=res)
        try:
            cq, rq = ex._call_queue._reducers, ex._result_queue._reducers
            exp_r = res if res is not None else job
            if cq is not job or rq is not exp_r:
                viol("executor-wiring", f"job_reducers={_nm(job)} result_reducers={_nm(res)}: call "
                     f"queue uses {_nm(cq)}, result queue uses {_nm(rq)} (expected {_nm(exp_r)})",
                     (_nm(job), _nm(res)))
        finally:
            ex.shutdown(wait=True)
    # a second executor without reducers is unaffected
    ex1 = pe.ProcessPoolExecutor(max_workers=1, job_reducers=jr)
    ex2 = pe.ProcessPoolExecutor(max_workers=1)
    try:
        n += 1
        if ex2._call_queue._reducers is not None or ex2._result_queue._reducers is not None:
            viol("executor-leak", "an executor created without reducers got reducers", ())
    finally:
        ex1.shutdown()
        ex2.shutdown()

    # ---- (3b) the reducers asked of get_reusable_executor reach the instance it returns, in
    # every history of creations / replacements / reuses (no worker is ever started: the
    # executors are only built, inspected and shut down)
    reu = common.load("loky.reusable_executor")

    def run_hist(hist):
        """hist: tuple of ("get", job, res, timeout, reuse) | ("shutdown",); returns the number
        of calls judged."""
        cur = None          # model: dict(job, res, timeout, shut)
        ex = None
        k = 0
        try:
            for ev in hist:
                if ev[0] == "shutdown":
                    if ex is not None:
                        ex.shutdown(wait=True)
                        cur["shut"] = True
                    continue
                _, job, res, timeout, reuse = ev
                kw = dict(job_reducers=job, result_reducers=res)
                new = reu.get_reusable_executor(max_workers=1, timeout=timeout, reuse=reuse, **kw)
                k += 1
                same_kw = cur is not None and (cur["job"], cur["res"], cur["timeout"]) == (job, res, timeout)
                fresh = (cur is None or cur["shut"] or reuse is False
                         or (reuse == "auto" and not same_kw))
                if fresh:
                    cur = dict(job=job, res=res, timeout=timeout, shut=False)
                    if new is ex:
                        viol("reusable-not-replaced", f"history {_hn(hist)}: call {k} returned the "
                             f"previous instance", _hn(hist))
                elif new is not ex:
                    viol("reusable-not-reused", f"history {_hn(hist)}: call {k} built a new "
                         f"instance", _hn(hist))
                ex = new
                cq, rq = ex._call_queue._reducers, ex._result_queue._reducers
                exp_j = cur["job"]
                exp_r = cur["res"] if cur["res"] is not None else cur["job"]
                if cq is not exp_j or rq is not exp_r or ex._timeout != cur["timeout"]:
                    viol("reusable-wiring", f"history {_hn(hist)}: after call {k} the executor pickles "
                         f"jobs with {_nm(cq)} (expected {_nm(exp_j)}), results with {_nm(rq)} "
                         f"(expected {_nm(exp_r)}), timeout {ex._timeout} (expected "
                         f"{cur['timeout']})", _hn(hist))
        finally:
            if ex is not None:
                ex.shutdown(wait=True)
        return k

    def _hn(hist):
        return tuple("shutdown" if e[0] == "shutdown" else
                     f"get(job={_nm(e[1])},res={_nm(e[2])},t={e[3]},reuse={e[4]})" for e in hist)
    gets_full = [("get", j, r, t, ru) for j in (None, jr, empty) for r in (None, rr, empty)
                 for t in (10, 7) for ru in ("auto", True, False)]
    gets_small = [("get", j, r, 10, "auto") for j in (None, jr) for r in (None, rr, empty)]
    nh = 0
    for h in itertools.product(gets_full, repeat=2):
        n += run_hist(h)
        nh += 1
    for h in itertools.product(gets_small + [("shutdown",)], repeat=3):
        if h[0][0] == "shutdown":
            continue
        n += run_hist(h)
        nh += 1
    reusable_histories = nh

    # ---- (4) the call item carries the pickler in force when it was created ---------------------
    for at_create, later in itertools.product(["cloudpickle", "pickle"], repeat=2):
        n += 1
        red.set_loky_pickler(at_create)
        item = pe._CallItem(0, red.get_loky_pickler_name, (), {})
        red.set_loky_pickler(later)
        used = item()
        if item.loky_pickler != at_create or used != at_create:
            viol("call-item-pickler", f"call item created under {at_create!r} ran with {used!r} "
                 f"(recorded {item.loky_pickler!r}) after the parent switched to {later!r}",
                 (at_create, later))
    red.set_loky_pickler(None)

    # ---- (4b) the LOKY_PICKLER environment variable selects the default pickler (read at
    # import), set_loky_pickler(None) returns to it
    import os as _os
    import subprocess as _sp
    import sys as _sys
    probe = ("from loky.backend import reduction as r; a = r.get_loky_pickler_name(); "
             "r.set_loky_pickler('pickle'); b = r.get_loky_pickler_name(); "
             "r.set_loky_pickler(None); c = r.get_loky_pickler_name(); print('PICKLERS', a, b, c)")
    for val, exp in [(None, "cloudpickle"), ("", "cloudpickle"), ("cloudpickle", "cloudpickle"),
                     ("pickle", "pickle")]:
        n += 1
        env = dict(_os.environ, PYTHONPATH=common.REPO)
        env.pop("LOKY_PICKLER", None)
        if val is not None:
            env["LOKY_PICKLER"] = val
        r_ = _sp.run([_sys.executable, "-c", probe], env=env, capture_output=True, text=True, timeout=60)
        got = [l.split()[1:] for l in r_.stdout.splitlines() if l.startswith("PICKLERS")]
        if got != [[exp, "pickle", exp]]:
            viol(f"env-default-pickler:{val}", f"LOKY_PICKLER={val!r}: default / after "
                 f"set_loky_pickler('pickle') / after set_loky_pickler(None) = {got}, expected "
                 f"{[exp, 'pickle', exp]} {r_.stderr[-200:]}", (val,))

    # ---- (5) on real processes: pickler at submit time == pickler the worker uses ------------
    from ..real import runner
    r = runner.run("pickler_at_submit", {}, None, timeout=90)
    if r["status"] != "ok" or not r["result"] or "cases" not in r["result"]:
        viol("R:pickler-scenario-failed", f"{r['status']} {r['result']} {r['stdio'][-300:]}", ())
    else:
        for at_submit, later, gap, used in r["result"]["cases"]:
            n += 1
            if used != at_submit:
                viol(f"R:worker-pickler:{at_submit}->{used}",
                     f"task submitted under {at_submit!r}, parent switched to {later!r} "
                     f"{gap} s later: the worker used {used!r}", (at_submit, later, gap))
        for worker_default, at_submit, kind in r["result"].get("results", []):
            n += 1
            exp = "value" if at_submit == "cloudpickle" else "not-value"
            ok = (kind == "value") if exp == "value" else (kind not in ("value", "wrong-value"))
            if not ok:
                viol(f"R:result-pickler:{at_submit}:worker-default={worker_default}:{kind}",
                     f"a lambda returned by a task submitted under {at_submit!r} (worker's own "
                     f"default pickler: {worker_default or 'cloudpickle'}) came back as {kind}: the "
                     f"result did not travel with the pickler of the submission",
                     (worker_default, at_submit))

    rep.coverage = dict(
        evaluations=n, distinct_nontrivial=states + len(callables()) * 2 + 9, samples=samples or [{}],
        histories=states, history_depth=depth, exhaustive=True,
        reusable_executor_histories=reusable_histories,
        rule="all histories up to the depth bound over {4 pickler selections, 3 reducer maps x 2 "
             "classes} replayed on the real reduction module, registries snapshotted after every "
             "operation; every built-in-reducer object kind under both back-ends; the 2x2 "
             "executor reducer wiring; every pair of get_reusable_executor calls over {3 job maps x 3 "
             "result maps x 2 timeouts x 3 reuse modes} and every triple over a reduced alphabet "
             "with shutdowns in between: identity (reused / replaced) and reducer wiring of the "
             "instance returned; the 2x2 pickler-at-creation / pickler-later product")
    rep.assumptions = ["the worker-side clause is exercised on real processes for 4 pickler pairs x 3 delays"]
    code = rep.finish()
    print(f"[C15] tier={tier} operations={n} histories={states} violations={len(rep.violations)}")
    return code


def base_restore(red, base):
    pass


def _nm(r):
    if r is None:
        return None
    if not r:
        return "{}"
    return sorted(k.__name__ for k in r)


def _same(f, g, p):
    try:
        a = ("ok", f(*p))
    except BaseException as e:
        a = ("exc", type(e).__name__)
    try:
        b = ("ok", g(*p))
    except BaseException as e:
        b = ("exc", type(e).__name__)
    return a == b
