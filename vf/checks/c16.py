"""C16 - wrap_non_picklable_objects is behaviour-preserving.

Full product of object kinds x keep_wrapper x number of plain-pickle round trips x
wrapper-of-wrapper, on objects defined in an unimportable module (so that plain pickle of the
bare object fails where it should)."""
import itertools
import pickle
import types

from .. import framework
from ..q import common

SRC = '''
import functools
def plain(x, y=1):
    return ("plain", x, y)
lam = lambda x, y=2: ("lam", x * 2, y)
def make_closure(k):
    def closure(x):
        return ("closure", x + k)
    return closure
clo = make_closure(5)
def make_nested():
    def nested(x):
        return ("nested", x)
    return nested
nst = make_nested()
def make_rec():
    def fact(n):
        return 1 if n <= 1 else n * fact(n - 1)
    return fact
rec = make_rec()
par = functools.partial(plain, 7, y=3)
class Plain:
    tag = "P"
    def __init__(self):
        self.v = 1
    def m(self, z):
        return ("m", self.v, z)
    @property
    def prop(self):
        return ("prop", self.v)
class Arg1:
    def __init__(self, a):
        self.a = a
    def m(self, z):
        return ("m", self.a, z)
class ArgKw:
    def __init__(self, a, k=9):
        self.a, self.k = a, k
    def m(self, z):
        return ("m", self.a, self.k, z)
class Callable_:
    def __init__(self, a=2):
        self.a = a
    def __call__(self, x):
        return ("called", self.a, x)
    def m(self, z):
        return ("m", self.a, z)
class CallableChild(Callable_):
    pass
def kw_named_like_wrapper(self=0, args=1, kwargs=2, obj=3):
    return ("kw", self, args, kwargs, obj)
class Slotted:
    __slots__ = ("a",)
    def __init__(self, a=5):
        self.a = a
    def m(self, z):
        return ("m", self.a, z)
class SlottedCallable(Slotted):
    __slots__ = ()
    def __call__(self, x):
        return ("called", self.a, x)
class KwCtor:
    def __init__(this, self=0, args=1, kwargs=2, obj=3):
        this.got = ("ctor", self, args, kwargs, obj)
plain.__vf_meta__ = ("meta", "plain")
clo.__vf_meta__ = ("meta", "clo")
Plain.__vf_meta__ = ("meta", "Plain")
class Sized:
    __vf_meta__ = ("meta", "Sized")
    def __init__(self, n=3):
        self.a = n
    def __len__(self):
        return self.a
    def m(self, z):
        return ("m", self.a, z)
def make_counter():
    n = 0
    def counter(step=0):
        nonlocal n
        n += step
        return ("count", n)
    return counter
class Mutable:
    def __init__(self, a=1):
        self.a = a
    def bump(self, k):
        self.a += k
        return self.a
    def m(self, z):
        return ("m", self.a, z)
class MutableCallable(Mutable):
    def __call__(self, x):
        return ("called", self.a, x)
'''


def universe():
    ns = {"__name__": "__vf_main_like__"}
    exec(compile(SRC, "<c16-objects>", "exec"), ns)
    return ns


def probes_for(kind):
    if kind in ("plain", "lam"):
        return [(1,), (2, 5)]
    if kind in ("clo", "nst"):
        return [(1,), (4,)]
    if kind == "rec":
        return [(1,), (5,)]
    if kind == "par":
        return [()]
    return [(3,)]


FUNCS = ["plain", "lam", "clo", "nst", "rec", "par"]
INSTANCES = [("Plain", (), {}), ("Arg1", (4,), {}), ("ArgKw", (4,), {"k": 6}),
             ("Callable_", (3,), {}), ("CallableChild", (), {}), ("Sized", (4,), {}), ("Slotted", (6,), {}),
             ("SlottedCallable", (7,), {})]
ATTRS = ["tag", "v", "a", "k", "prop",
         # double-underscore names are ordinary attribute reads too (function metadata, user data)
         "__name__", "__qualname__", "__defaults__", "__vf_meta__"]


def behaviour(obj, kind):
    """Observable behaviour of an object: callable?, call results, attribute reads, methods."""
    out = {"callable": callable(obj)}
    if callable(obj):
        res = []
        for p in probes_for(kind):
            try:
                res.append(("ok", obj(*p)))
            except BaseException as e:
                res.append(("exc", type(e).__name__))
        out["calls"] = res
    at = {}
    for a in ATTRS:
        try:
            at[a] = ("ok", getattr(obj, a))
        except AttributeError:
            at[a] = ("noattr",)
        except BaseException as e:
            at[a] = ("exc", type(e).__name__)
    out["attrs"] = at
    try:
        out["len"] = ("ok", obj.__len__())          # an explicitly fetched special method
    except AttributeError:
        out["len"] = ("noattr",)
    except BaseException as e:
        out["len"] = ("exc", type(e).__name__)
    try:
        out["m"] = ("ok", obj.m(8))
    except AttributeError:
        out["m"] = ("noattr",)
    except BaseException as e:
        out["m"] = ("exc", type(e).__name__)
    return out


def main(tier):
    rep = framework.Report("C16", tier, "exploration")
    cw = common.load("loky.cloudpickle_wrapper")
    wrap, Wrapper = cw.wrap_non_picklable_objects, cw.CloudpickledObjectWrapper
    ns = universe()
    n = 0
    samples = []

    def viol(sig, msg, case):
        rep.add_violation(dict(signature=f"C16:{sig}", msg=f"{msg} [case {case}]", case=repr(case)))

    def check_obj(obj, kind, case, keep, trips, double, proto=None):
        nonlocal n
        n += 1
        ref = behaviour(obj, kind)
        try:
            pickle.dumps(obj)
            bare_picklable = True
        except BaseException:
            bare_picklable = False
        w = wrap(obj, keep_wrapper=keep)
        if double is not None:
            w = wrap(w, keep_wrapper=double)
        outer_keep = keep if double is None else double
        b = behaviour(w, kind)
        if b != ref:
            diff = [k for k in ref if ref[k] != b.get(k)]
            viol(f"wrapper-behaviour:{diff[0]}:{kind.split('(')[0]}",
                 f"wrapper differs from the object on {diff}: {({k: b.get(k) for k in diff})} vs "
                 f"{({k: ref[k] for k in diff})}", case)
        cur = w
        for t in range(trips):
            try:
                cur = pickle.loads(pickle.dumps(cur) if proto is None
                                   else pickle.dumps(cur, protocol=proto))
            except BaseException as e:
                viol(f"round-trip-fails:{type(e).__name__}", f"plain pickle round trip #{t + 1} "
                     f"of the wrapper failed: {e!r}", case)
                return
            is_w = isinstance(cur, Wrapper)
            # outer wrapper stays iff its keep flag; an inner wrapper re-appears iff its own
            exp_w = outer_keep or (double is not None and keep)
            if is_w != exp_w:
                viol(f"keep-wrapper:{exp_w}->{is_w}",
                     f"after round trip #{t + 1} the result is {'a wrapper' if is_w else 'bare'} "
                     f"although keep_wrapper says {exp_w} (inner={keep}, outer={double})", case)
            b = behaviour(cur, kind)
            if b != ref:
                diff = [k for k in ref if ref[k] != b.get(k)]
                viol(f"round-trip-behaviour:{diff[0]}:{kind.split('(')[0]}",
                     f"after round trip #{t + 1} behaviour differs on {diff}: "
                     f"{({k: b.get(k) for k in diff})} vs {({k: ref[k] for k in diff})}", case)
            if not is_w:
                break          # a bare unimportable object cannot be plain-pickled again
        if len(samples) < 5 and n % 37 == 0:
            samples.append(dict(case=repr(case), bare_picklable=bare_picklable, reference=repr(ref)[:200]))

    trips_dom = [1, 2, 3]
    doubles = [None, True, False]
    for kind in FUNCS:
        for keep, trips, double in itertools.product([True, False], trips_dom, doubles):
            check_obj(ns[kind], kind, (kind, keep, trips, double), keep, trips, double)
    for cname, args, kw in INSTANCES:
        for keep, trips, double in itertools.product([True, False], trips_dom, doubles):
            obj = ns[cname](*args, **kw)
            check_obj(obj, cname, ("instance", cname, keep, trips, double), keep, trips, double)
    # every pickle protocol of the enclosing pickler (the payload is cloudpickle's business)
    for proto in range(pickle.HIGHEST_PROTOCOL + 1):
        for kind in FUNCS:
            for keep in (True, False):
                check_obj(ns[kind], kind, (kind, keep, 2, None, f"protocol={proto}"), keep, 2, None, proto)
        for cname, args, kw in INSTANCES:
            for keep in (True, False):
                check_obj(ns[cname](*args, **kw), cname,
                          ("instance", cname, keep, 2, None, f"protocol={proto}"), keep, 2, None, proto)
    # keyword arguments of the wrapped callable named like the wrapper's own parameters
    for keep in (True, False):
        n += 1
        f = ns["kw_named_like_wrapper"]
        w = wrap(f, keep_wrapper=keep)
        for kwargs in ({"self": 9}, {"args": 8, "kwargs": 7}, {"obj": 6, "self": 5}, {}):
            try:
                got = w(**kwargs)
            except BaseException as e:       # noqa
                got = f"EXC:{type(e).__name__}:{e}"
            if got != f(**kwargs):
                viol("call-not-forwarded:keyword-named-like-wrapper-parameter",
                     f"wrapper(**{kwargs}) gave {got!r}, the callable gives {f(**kwargs)!r}",
                     ("kw", keep, tuple(kwargs)))
    # ... and a wrapped CLASS is constructed like the class, whatever its parameters are called
    for keep in (True, False):
        n += 1
        cls = ns["KwCtor"]
        wc = wrap(cls, keep_wrapper=keep)
        for kwargs in ({"self": 9}, {"args": 8, "kwargs": 7}, {"obj": 6, "self": 5}, {}):
            try:
                got = wc(**kwargs).got
            except BaseException as e:       # noqa
                got = f"EXC:{type(e).__name__}:{e}"
            if got != cls(**kwargs).got:
                viol("class-construction-not-forwarded:keyword-named-like-wrapper-parameter",
                     f"wrapped_class(**{kwargs}) gave {got!r}, the class gives {cls(**kwargs).got!r}",
                     ("kw-ctor", keep, tuple(kwargs)))
    # the documented decorator use on a function that refers to itself by its (now wrapped) name
    dns = {"__name__": "__vf_main_like__", "wrap": wrap}
    exec(compile("@wrap\ndef drec(n):\n    return 1 if n <= 1 else n * drec(n - 1)\n"
                 "@wrap\ndef dplain(n):\n    return ('dplain', n)\n", "<c16-decorated>", "exec"), dns)
    for name, probe, exp in (("dplain", 4, ("dplain", 4)), ("drec", 5, 120)):
        n += 1
        try:
            back = pickle.loads(pickle.dumps(dns[name]))
            got = back(probe)
        except BaseException as e:           # noqa
            viol(f"decorated-function:{name}:round-trip-fails:{type(e).__name__}",
                 f"@wrap_non_picklable_objects on {name}: plain pickle round trip fails: {e!r}",
                 ("decorated", name))
            continue
        if got != exp:
            viol(f"decorated-function:{name}:wrong-result", f"{got!r} instead of {exp!r}", ("decorated", name))
    # class wrappers: the wrapped class is a constructor of wrapper instances
    for cname, args, kw in INSTANCES:
        for keep, trips in itertools.product([True, False], trips_dom):
            n += 1
            case = ("class", cname, keep, trips)
            cls = ns[cname]
            ref = behaviour(cls(*args, **kw), cname)
            try:
                W = wrap(cls, keep_wrapper=keep)
                inst = W(*args, **kw)
            except BaseException as e:
                viol(f"class-wrapper-construct:{type(e).__name__}", f"{e!r}", case)
                continue
            b = behaviour(inst, cname)
            if b != ref:
                diff = [k for k in ref if ref[k] != b.get(k)]
                viol(f"class-wrapper-behaviour:{diff[0]}:{cname}",
                     f"instance of the wrapped class differs on {diff}: "
                     f"{({k: b.get(k) for k in diff})} vs {({k: ref[k] for k in diff})}", case)
            cur = inst
            for t in range(trips):
                try:
                    cur = pickle.loads(pickle.dumps(cur))
                except BaseException as e:
                    viol(f"class-round-trip-fails:{type(e).__name__}", f"{e!r}", case)
                    break
                is_w = isinstance(cur, Wrapper)
                if is_w != keep:
                    viol(f"class-keep-wrapper:{keep}->{is_w}",
                         f"round trip #{t + 1} of an instance of the wrapped class gives "
                         f"{'a wrapper' if is_w else 'bare'} with keep_wrapper={keep}", case)
                b = behaviour(cur, cname)
                if b != ref:
                    diff = [k for k in ref if ref[k] != b.get(k)]
                    viol(f"class-round-trip-behaviour:{diff[0]}:{cname}",
                         f"after round trip #{t + 1}: {({k: b.get(k) for k in diff})} vs "
                         f"{({k: ref[k] for k in diff})}", case)
                if not keep:
                    break
    # ---- histories on ONE wrapper: it is sent (pickled) several times and the wrapped object
    # changes in between; what arrives must behave like the object at the time of that send
    def observe(kind, x):
        if kind == "counter":
            return ("callable", callable(x), x(0) if callable(x) else None)
        out = [("callable", callable(x))]
        try:
            out.append(("a", x.a))
        except BaseException as e:      # noqa
            out.append(("a", type(e).__name__))
        try:
            out.append(("m", x.m(8)))
        except BaseException as e:      # noqa
            out.append(("m", type(e).__name__))
        if callable(x):
            out.append(("call", x(5)))
        return tuple(out)

    def mutate(kind, target, k):
        if kind == "counter":
            target(k)
        else:
            target.bump(k)

    nh = 0
    makers = [("counter", lambda: ns["make_counter"](), False),
              ("Mutable", lambda: ns["Mutable"](2), False),
              ("MutableCallable", lambda: ns["MutableCallable"](3), False),
              ("Mutable", lambda: None, True), ("MutableCallable", lambda: None, True)]
    # "read": the wrapper itself is observed where it is (no trip): attribute reads, method and
    # call results must be those of the wrapped object as it is NOW (live forwarding, no copy)
    OPS = ["send", "mutate-object", "mutate-through-wrapper", "read"]
    for (kind, make, via_class), keep in itertools.product(makers, [True, False]):
        for L in (2, 3, 4):
            for hist in itertools.product(OPS, repeat=L):
                if not any(o in ("send", "read") for o in hist[1:]) \
                        or not any(o.startswith("mutate") for o in hist):
                    continue
                if via_class and "mutate-object" in hist:
                    continue        # a class-wrapper instance has no separate bare object
                nh += 1
                n += 1
                case = ("history", kind, "class-wrapper" if via_class else "object", keep, hist)
                try:
                    if via_class:
                        w = wrap(ns[kind], keep_wrapper=keep)(4)
                        obj = w
                    else:
                        obj = make()
                        w = wrap(obj, keep_wrapper=keep)
                    for i, op in enumerate(hist):
                        if op == "mutate-object":
                            mutate(kind, obj, i + 1)
                        elif op == "mutate-through-wrapper":
                            mutate(kind, w, 10 * (i + 1))
                        elif op == "read":
                            got, exp = observe(kind, w), observe(kind, obj)
                            if got != exp:
                                viol(f"stale-read-through-wrapper:{kind}:{'class' if via_class else 'object'}",
                                     f"step #{i + 1}: the wrapper shows {got} while the wrapped "
                                     f"object now is {exp}", case)
                                break
                        else:
                            got = observe(kind, pickle.loads(pickle.dumps(w)))
                            exp = observe(kind, obj)
                            if got != exp:
                                viol(f"stale-after-change:{kind}:{'class' if via_class else 'object'}",
                                     f"send #{i + 1} of the same wrapper delivers {got} while the "
                                     f"wrapped object now is {exp}", case)
                                break
                except BaseException as e:      # noqa
                    viol(f"history-raised:{type(e).__name__}", f"{e!r}", case)
    rep.coverage = dict(
        wrapper_histories=nh,
        evaluations=n, distinct_nontrivial=n, samples=samples or [{"none": True}], exhaustive=True,
        rule="product of {6 function kinds, 5 instance kinds} x keep_wrapper x round trips "
             "{1,2,3} x outer wrapper {none, keep, no-keep}, plus {5 classes} x keep_wrapper x "
             "round trips for class wrappers; all histories of length 2-4 over {send, change the "
             "object, change it through the wrapper, read through the wrapper in place} on one wrapper of 3 stateful kinds (and 2 "
             "class-wrapper instances): each send delivers the state of that moment; every case "
             "distinct; behaviour = callable flag, "
             "call results on probes, attribute reads (incl. a property), a method call")
    rep.assumptions = ["objects live in an unimportable module namespace, like a script's __main__"]
    code = rep.finish()
    print(f"[C16] tier={tier} cases={n} violations={len(rep.violations)}")
    return code
