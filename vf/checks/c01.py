"""C01 - every future resolves and no API call hangs."""
from ..sim import oracles, programs as PG, simcheck

ORACLE = "vf.checks.c01:oracle"


def oracle(rec):
    return oracles.termination(rec)


def plan(tier):
    progs = [
        PG.basic(2, None), PG.basic(2, 0.05),
        PG.one_task(1, None, "wait"), PG.one_task(1, 0.05, "nowait"), PG.one_task(1, 0.05, "del"),
        PG.one_task(2, None, "exit"), PG.one_task(1, None, "with"),
        PG.warm_then(1, 0.05, "nowait"), PG.warm_then(1, 0.05, "del"),
        PG.warm_then(2, 0.05, "exit"),
        PG.failing("raise"), PG.failing("bad_arg"), PG.failing("exit_arg"),
        PG.failing("huge_arg"), PG.failing("unpicklable_result"),
        PG.failing("bad_unpickle_result"), PG.failing("bad_unpickle_arg"),
        PG.many_unsendable(4, 1), PG.die_task(2), PG.big_result(1),
        PG.reusable_full_queue(), PG.reusable_resize(2, 3, 0.05), PG.reusable_resize(2, 1, None),
        PG.reusable_replace(None, False), PG.two_submitters(2, 0.05), PG.cancel_prog(1),
        PG.memory_leak_respawn(1, None, "nowait"), PG.cancel_run(6, 1),
        PG.submit_cancel_shutdown(1, True), PG.submit_cancel_shutdown(2, False),
        PG.resubmit_from_callback("bad_arg", 1), PG.resubmit_from_callback("die", 2),
        PG.shutdown_in_callback("shutdown"), PG.shutdown_in_callback("shutdown_wait"),
        PG.shutdown_in_callback("shutdown_kill"), PG.with_body_raises(2, 2),
        PG.shutdown_twice(2, True), PG.shutdown_twice(2, False), PG.late_callbacks(1),
        PG.forced_with_callbacks(1), PG.forced_with_callbacks(2, True), PG.forced_then_graceful(2, True),
        PG.reuse_in_callback(2, 3), PG.reuse_in_callback(2, 2), PG.resize_vs_callback_submit(1, 3),
        PG.map_partial(2, (5,), 3), PG.map_partial(1, (4,), 0),
        PG.idle_then_submit(1, 0.05, "ok"), PG.idle_then_submit(2, 0.05), PG.warm_then(1, 0.05, "await"),
        # wake-ups of the manager that have a single cause and nothing else in flight (a task that
        # fails to pickle, a future cancelled before dispatch), then ordinary work
        PG.unsendable_one_by_one(2, 1), PG.unsendable_one_by_one(3, 2),
        PG.mixed_failures(["bad_arg", "bad_arg"], 1), PG.cancel_then_work(1),
    ]
    pl = [(p, 1, dict(kinds=("P", "T", "K"))) for p in progs]
    # a worker taken down by any signal: the futures still resolve
    pl += [(PG.die_code(code, 2), 0, dict(kinds=("P",))) for code in list(range(-64, 0)) + [0, 1, 255]]
    # other scheduling policies (see DESIGN 11.2): a delayed user thread, an eager manager
    pl += [(PG.two_submitters(2, 0.05), 1, dict(kinds=("P", "T"), starve="parent:user")),
           (PG.submit_vs_shutdown(1, True), 1, dict(kinds=("P", "T", "K"), starve="parent:user")),
           (PG.basic(2, 0.05), 1, dict(kinds=("T", "K"), starve="eager:parent:manager")),
           (PG.idle_then_submit(2, 0.05), 1, dict(kinds=("T", "K"), starve="eager:parent:manager")),
           (PG.reusable_resize(2, 3, None), 1, dict(kinds=("K",), starve="eager:parent:manager"))]
    if tier == "thorough":
        small = [PG.one_task(1, None, "wait"), PG.one_task(1, 0.05, "nowait"),
                 PG.one_task(1, 0.05, "del"), PG.one_task(2, None, "exit"),
                 PG.failing("bad_arg"), PG.failing("unpicklable_result"), PG.cancel_prog(1),
                 PG.warm_then(1, 0.05, "await")]
        for p in small:
            pl.append((p, 2, dict(kinds=("P", "K"))))
            pl.append((p, 2, dict(kinds=("T", "K"))))
            pl.append((p, 2, dict(kinds=("P", "T"))))
        pl += [(PG.unsendable_one_by_one(2, 1), 2, dict(kinds=("P",), p_scope="parent:")),
               (PG.submit_vs_shutdown(1, True), 2, dict(kinds=("P",), starve="parent:user")),
               (PG.two_submitters(2, None), 2, dict(kinds=("P",)))]
    # source-line granularity (one preemption at any line of loky run by a parent thread)
    pl += simcheck.line_plan([PG.two_submitters(2, 0.05), PG.submit_vs_shutdown(1, True), PG.cancel_prog(1)])
    if tier == "thorough":
        pl += simcheck.line_plan(progs)
    return pl


def main(tier, replay=None):
    return simcheck.run("C01", tier, plan(tier), ORACLE)
