"""C18 - every worker is a fresh, initialised interpreter with only intended inheritance.

(S) in every explored execution of programs with time-outs, respawns, resizes and shutdown
forms, no task body runs in a worker that has not run the configured initializer, and a failing
initializer breaks the pool.  (R) real children: descriptor inheritance over every subset of
extra parent descriptors, environment overlay, exit status 0..255 and signals, no re-import
of __main__ under 'loky'."""
from .. import framework
from ..sim import explore, programs as PG

ORACLE = "vf.sim.props:c18"


def with_init(prog, init="ok"):
    p = dict(prog)
    p["pool"] = dict(prog["pool"], init=init)
    p["name"] = prog["name"] + f"+init-{init}"
    return p


def s_plan(tier):
    PT = dict(kinds=("P", "T"))
    pl = [(with_init(PG.warm_then(1, 0.05, "nowait")), 1, PT),
          (with_init(PG.warm_then(1, 0.05, "await")), 1, PT),
          (with_init(PG.idle_then_submit(2, 0.05)), 1, PT),
          (with_init(PG.reusable_resize(1, 3, 0.05)), 1, PT),
          (with_init(PG.timeout_resize(2, 1)), 1, PT),
          (with_init(PG.shutdown_form(2, "exit", 1, 0.05)), 1, PT),
          (with_init(PG.shutdown_form(2, "del", 1, 0.05)), 1, PT),
          (PG.memory_leak_respawn(1, "ok", "await"), 1, PT),
          (PG.memory_leak_respawn(1, "ok", "nowait"), 1, PT),
          (with_init(PG.basic(2, None), "fail"), 1, PT),
          (with_init(PG.reusable_replace(None, False)), 0, PT),
          (PG.late_initializer_failure(3), 1, PT), (PG.late_initializer_failure(4), 0, PT)]
    # the initializer by the shape of the callable: falsy callable objects, bound method, partial
    for shape in ("ok-falsy", "ok-nevertrue", "ok-method", "ok-partial"):
        pl += [(with_init(PG.basic(2, None), shape), 0, PT),
               (with_init(PG.idle_then_submit(2, 0.05), shape), 1 if shape == "ok-falsy" else 0, PT),
               (with_init(PG.reusable_resize(1, 3, 0.05), shape), 0, PT)]
    if tier == "thorough":
        pl += [(with_init(PG.warm_then(1, 0.05, "nowait")), 2, dict(kinds=("T",))),
               (with_init(PG.bursts(2, 0.05)), 1, PT)]
    return pl


def main(tier):
    rep = framework.Report("C18", tier, "fault_enumeration")
    pool = explore.Pool(ORACLE)
    total = explore.Summary()
    try:
        for prog, bound, opts in s_plan(tier):
            total.merge(explore.explore(pool, prog, bound, opts, ORACLE))
    finally:
        pool.close()
    for v in total.violations:
        rep.add_violation(v)
    rep.internal = total.internal
    from ..real import c18real
    rres = c18real.run_all(tier)
    for sig, msg, case in rres["violations"]:
        rep.add_violation(dict(signature=sig, msg=msg, case=case))
    rep.coverage = dict(
        evaluations=total.executions + rres["cases"], distinct_nontrivial=total.executions + rres["cases"],
        samples=(rres["samples"] + total.samples)[:5], simulated_executions=total.executions,
        states=len(total.states), transitions=len(total.transitions), real_cases=rres["cases"],
        real_breakdown=rres["breakdown"], exhaustive=False,
        rule="(R) full products on real child processes: every subset of 4 extra parent "
             "descriptor kinds x inheritable flag; 5 env overlays; exit codes 0..255 and 6 "
             "signals; 2 start methods for the __main__ re-import clause; (S) all executions "
             "within the deviation bound of programs with initializers; every case distinct")
    rep.assumptions = ["real runs follow one OS schedule each; the schedule quantifier of the "
                       "initializer clause is carried by engine S"]
    code = rep.finish()
    print(f"[C18] tier={tier} simulated={total.executions} real_cases={rres['cases']} "
          f"violations={len(rep.violations)}")
    return code
