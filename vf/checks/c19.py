"""C19 - nested parallelism depth is bounded exactly at LOKY_MAX_DEPTH.

(Q) the real _check_max_depth / ProcessPoolExecutor constructor over the full product of
MAX_DEPTH x current depth x start method; (S) in every explored execution of programs with
respawns and resizes the depth shipped to and seen by each worker is creator depth + 1."""
import itertools
import sys
import types

from .. import framework
from ..q import common
from ..sim import programs as PG, explore

ORACLE = "vf.sim.props:c19"
MAXD = [-1, 0, 1, 2, 3, 10]
DEPTHS = list(range(0, 12))
METHODS = ["loky", "loky_init_main", "spawn", "fork"]


def expected(maxd, d, method):
    if method == "fork" and d >= 1:
        return False
    if maxd > 0 and not d < maxd:
        return False
    return True


def q_part(rep):
    pe = common.load("loky.process_executor")
    saved = (pe.MAX_DEPTH, pe._CURRENT_DEPTH)
    n = 0
    samples = []
    try:
        for maxd, d, method in itertools.product(MAXD, DEPTHS, METHODS):
            n += 1
            pe.MAX_DEPTH, pe._CURRENT_DEPTH = maxd, d
            ctx = types.SimpleNamespace(get_start_method=lambda m=method: m)
            try:
                pe._check_max_depth(ctx)
                got = True
            except pe.LokyRecursionError:
                got = False
            except BaseException as e:
                got = type(e).__name__
            exp = expected(maxd, d, method)
            if got != exp:
                rep.add_violation(dict(signature=f"C19:formula:{method}:max{maxd}",
                                       msg=f"_check_max_depth with MAX_DEPTH={maxd} at depth {d} "
                                           f"under {method!r}: allowed={got}, expected {exp}",
                                       config=[maxd, d, method]))
            if n % 61 == 0 and len(samples) < 4:
                samples.append(dict(MAX_DEPTH=maxd, depth=d, method=method, allowed=got))
        # the constructor refuses before any process exists
        import multiprocessing
        for maxd, d in itertools.product([1, 2, 3], range(0, 5)):
            n += 1
            pe.MAX_DEPTH, pe._CURRENT_DEPTH = maxd, d
            before = len(multiprocessing.active_children())
            try:
                ex = pe.ProcessPoolExecutor(max_workers=1)
                got = True
                nproc = len(ex._processes)
                ex.shutdown(wait=False)
            except pe.LokyRecursionError:
                got = False
                nproc = 0
            exp = d < maxd
            if got != exp or nproc != 0 or len(multiprocessing.active_children()) != before:
                rep.add_violation(dict(signature=f"C19:constructor:max{maxd}",
                                       msg=f"ProcessPoolExecutor() at depth {d} with MAX_DEPTH="
                                           f"{maxd}: created={got} (expected {exp}), processes "
                                           f"spawned by the constructor: {nproc}",
                                       config=[maxd, d]))
    finally:
        pe.MAX_DEPTH, pe._CURRENT_DEPTH = saved
    # the limit is read from LOKY_MAX_DEPTH at import: default 10, 0/negative = unlimited
    import os
    import subprocess
    for val, exp in [(None, 10), ("0", 0), ("-1", -1), ("1", 1), ("3", 3), ("10", 10), ("25", 25)]:
        n += 1
        env = dict(os.environ, PYTHONPATH=common.REPO)
        env.pop("LOKY_MAX_DEPTH", None)
        if val is not None:
            env["LOKY_MAX_DEPTH"] = val
        r = subprocess.run([sys.executable, "-c",
                            "import loky.process_executor as pe; print('MAXDEPTH', pe.MAX_DEPTH)"],
                           env=env, capture_output=True, text=True, timeout=60)
        got = [l.split()[1] for l in r.stdout.splitlines() if l.startswith("MAXDEPTH")]
        if got != [str(exp)]:
            rep.add_violation(dict(signature=f"C19:env-parsing:{val}",
                                   msg=f"LOKY_MAX_DEPTH={val!r} gives MAX_DEPTH={got} (expected "
                                       f"{exp}; 0 and negative values mean unlimited) "
                                       f"{r.stderr[-200:]}", config=[val]))
    return n, samples


def s_plan(tier):
    PT = dict(kinds=("P", "T"))

    def at_depth(prog, d):
        p = dict(prog)
        p["pool"] = dict(prog["pool"], parent_depth=d)
        p["name"] = prog["name"] + f"@depth{d}"
        return p
    pl = [(PG.idle_then_submit(2, 0.05), 1, PT), (PG.reusable_resize(1, 3, 0.05), 1, PT),
          (at_depth(PG.idle_then_submit(1, 0.05), 2), 1, PT),
          (at_depth(PG.reusable_resize(2, 3, None), 1), 1, PT),
          (PG.warm_then(1, 0.05, "await"), 1, PT),
          (PG.idle_then_submit(1, 0.05, "ok"), 1, PT),
          (at_depth(PG.idle_then_submit(2, 0.05, "ok"), 1), 0, PT)]
    if tier == "thorough":
        pl += [(at_depth(PG.bursts(2, 0.05), 3), 1, PT),
               (PG.timeout_resize(1, 3), 2, dict(kinds=("T",), t_scope="worker", t_cur="parent:"))]
    return pl


def main(tier):
    rep = framework.Report("C19", tier, "exploration")
    nq, samples = q_part(rep)
    pool = explore.Pool(ORACLE)
    total = explore.Summary()
    try:
        for prog, bound, opts in s_plan(tier):
            total.merge(explore.explore(pool, prog, bound, opts, ORACLE))
    finally:
        pool.close()
    for v in total.violations:
        rep.add_violation(v)
    rep.internal = total.internal
    # (R) really nested executors: chains of real processes up to and beyond LOKY_MAX_DEPTH
    from ..real import c19real
    rr = c19real.run_all(tier)
    for sig, msg, cfg in rr["violations"]:
        rep.add_violation(dict(signature=sig, msg=msg, config=cfg))
    rep.coverage = dict(
        evaluations=nq + total.executions + rr["cases"],
        distinct_nontrivial=nq + total.executions + rr["cases"],
        samples=samples + total.samples[:2] + rr["samples"][:1], formula_configurations=nq,
        real_nested_chains=rr["cases"], real_nested_levels=rr["levels"],
        real_chains_inconclusive=rr["vacuous"], real_chains_retried=rr["retried"],
        simulated_executions=total.executions, states=len(total.states),
        transitions=len(total.transitions), exhaustive=False,
        rule="(Q) full product MAX_DEPTH x depth x start method on the real _check_max_depth and "
             "the real constructor; (S) every execution within deviation bound 1 (P,T) of "
             "programs with timeouts, respawns and resizes, at parent depths 0..3: the "
             "current_depth argument and the worker's private _CURRENT_DEPTH are compared with "
             "creator depth + 1; (R) the enumerated configurations LOKY_MAX_DEPTH x API "
             "(ProcessPoolExecutor, get_reusable_executor) x way of obtaining the next worker "
             "(fresh, reused, respawned after idle timeout, added by resize, replacement of a "
             "killed pool) x start method, each a chain of really nested executors one level "
             "beyond the limit: depth seen at every level, refusal exactly at the limit, no "
             "process spawned by a refused constructor; all cases distinct")
    rep.assumptions = ["simulated workers do not nest executors: nesting is covered by the real "
                       "chains (R), which run one free schedule per configuration"]
    code = rep.finish()
    print(f"[C19] tier={tier} formula_configs={nq} executions={total.executions} "
          f"violations={len(rep.violations)}")
    return code
