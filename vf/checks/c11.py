"""C11 - the resource tracker's reference counts are exact.

Explicit-state BFS over request histories: the real ``resource_tracker.main(fd)`` loop is run
on a scripted stream (its ``open``, cleanup table, ``signal``, ``sys`` and ``warnings`` are
substituted), every transition is compared with a reference model of the documented counting
rule, and end-of-file is delivered after every explored history."""
import collections
import io
import sys
import time
import types

from .. import framework
from ..q import common

NAMES = ["a", "b:c"]
TYPES = ["file", "folder", "semlock"]
CMDS = ["REGISTER", "UNREGISTER", "MAYBE_UNLINK"]


def alphabet():
    ev = []
    for c in CMDS:
        for n in NAMES:
            for t in TYPES:
                ev.append((f"{c}:{n}:{t}", f"{c}:{n}:{t}\n".encode()))
    ev += [("PROBE", b"PROBE:0:noop\n"), ("unknown-cmd", b"FROB:a:file\n"),
           ("unknown-type", b"REGISTER:a:bogus\n"), ("undecodable", b"\xff\xfeREGISTER:a:file\n"),
           ("no-separator", b"garbage\n"), ("empty-line", b"\n"),
           ("unreg-unknown-type", b"UNREGISTER:a:bogus\n")]
    return ev


TRUNC = ("truncated-final-line", b"REGISTER:a:fil")      # no newline: only legal as last line


class Model:
    """The documented rule: count = registrations - maybe_unlinks since the last unregister."""

    def __init__(self):
        self.reg = {t: {} for t in TYPES}

    def step(self, raw):
        """returns (cleanups, reported)"""
        try:
            txt = raw.strip().decode("ascii")
        except UnicodeDecodeError:
            return [], True
        parts = txt.split(":")
        cmd, name, rtype = parts[0], ":".join(parts[1:-1]), parts[-1]
        if cmd == "PROBE":
            return [], False
        if rtype not in self.reg:
            return [], True
        r = self.reg[rtype]
        if cmd == "REGISTER":
            r[name] = r.get(name, 0) + 1
            return [], False
        if cmd == "UNREGISTER":
            if name not in r:
                return [], True
            del r[name]
            return [], False
        if cmd == "MAYBE_UNLINK":
            if name not in r:
                return [], True
            r[name] -= 1
            if r[name] == 0:
                del r[name]
                return [(rtype, name)], False
            return [], False
        return [], True

    def sweep(self):
        out = []
        for t in TYPES:
            if t != "folder":
                out += [(t, n) for n in self.reg[t]]
        out += [("folder", n) for n in self.reg["folder"]]
        return out

    def key(self):
        return tuple(tuple(sorted(self.reg[t].items())) for t in TYPES)


class Harness:
    def __init__(self):
        self.rt = common.load("loky.backend.resource_tracker")
        rt = self.rt
        self.saved = dict(rt.__dict__)
        self.saved_funcs = dict(rt._CLEANUP_FUNCS)

    warn_raises = False

    def run(self, lines):
        """Run the real main() on the scripted lines; returns per-line observations + sweep."""
        rt = self.rt
        obs = dict(cleanups=[[] for _ in lines], reports=[0 for _ in lines], sweep=[],
                   registry=[None for _ in lines], warnings=[], ended=False, consumed=0)
        cur = {"i": -1}

        def mk(rtype):
            def f(name):
                tgt = obs["cleanups"][cur["i"]] if 0 <= cur["i"] < len(lines) else obs["sweep"]
                tgt.append((rtype, name))
                if name == "a" and rtype == "file":
                    raise OSError("cleanup fails")
                if name == "b:c" and rtype == "file":
                    raise ValueError("embedded null byte")      # not every failure is an OSError
            return f

        class F:
            """The request stream with the semantics of the real open(): a binary reader, or
            a text reader (decoding, universal newlines) when the mode asks for one; one
            readline() = one request consumed."""

            def __init__(s, mode="r", buffering=-1, encoding=None, errors=None, newline=None,
                         closefd=True, opener=None):
                raw = io.BytesIO(b"".join(lines))
                s.inner = raw if "b" in mode else io.TextIOWrapper(
                    raw, encoding=encoding, errors=errors, newline=newline)
                s.empty = b"" if "b" in mode else ""

            def __enter__(s):
                return s

            def __exit__(s, *a):
                return False

            def close(s):
                pass

            def readline(s, *a):
                # registry of the caller = the loop's only surviving variable
                fr = sys._getframe(1)
                if fr.f_code.co_name == "__next__":
                    fr = fr.f_back
                reg = fr.f_locals.get("registry")
                if 0 <= cur["i"] < len(lines) and reg is not None:
                    obs["registry"][cur["i"]] = {t: dict(reg.get(t, {})) for t in TYPES}
                cur["i"] += 1
                obs["consumed"] = cur["i"]
                return s.inner.readline(*a)

            def __iter__(s):
                return s

            def __next__(s):
                line = s.readline()
                if line == s.empty:
                    raise StopIteration
                return line

        def hook(*a):
            if 0 <= cur["i"] < len(lines):
                obs["reports"][cur["i"]] += 1

        fsys = types.SimpleNamespace(stdin=types.SimpleNamespace(close=lambda: None),
                                     stdout=types.SimpleNamespace(close=lambda: None),
                                     excepthook=hook, exc_info=sys.exc_info, platform=sys.platform,
                                     stderr=sys.stderr)
        fsig = types.SimpleNamespace(signal=lambda *a: None, pthread_sigmask=lambda *a: None,
                                     SIGINT=2, SIGTERM=15, SIG_IGN=1, SIG_UNBLOCK=1, SIG_BLOCK=0)
        def _warn(m, *a, **k):
            obs["warnings"].append(str(m))
            if self.warn_raises and "leaked" in str(m):
                raise UserWarning(str(m))        # what -W error makes of it
        fwarn = types.SimpleNamespace(warn=_warn)
        rt.__dict__["open"] = lambda fd, *a, **k: F(*a, **k)
        rt.sys, rt.signal, rt.warnings = fsys, fsig, fwarn
        funcs = rt._CLEANUP_FUNCS
        funcs.clear()
        funcs.update({"folder": mk("folder"), "file": mk("file"), "semlock": mk("semlock")})
        try:
            rt.main(99)
            obs["ended"] = True
        except BaseException as e:   # the loop must never die
            obs["crash"] = repr(e)
        finally:
            rt.__dict__.pop("open", None)
            rt.sys, rt.signal, rt.warnings = (self.saved["sys"], self.saved["signal"],
                                              self.saved["warnings"])
            funcs.clear()
            funcs.update(self.saved_funcs)
        return obs


def check_history(h, hist, viol):
    """hist: list of (label, raw).  Compare every line and the final sweep with the model."""
    lines = [r for _, r in hist]
    obs = h.run(lines)
    labels = [l for l, _ in hist]
    m = Model()
    if "crash" in obs or not obs["ended"]:
        viol(f"tracker-loop-died", f"history {labels}: main() raised {obs.get('crash')}", labels)
        return None
    if obs["consumed"] != len(lines):
        viol("stopped-consuming", f"history {labels}: only {obs['consumed']} of {len(lines)} "
                                  f"requests were read", labels)
    for i, raw in enumerate(lines):
        exp_cl, exp_rep = m.step(raw)
        if obs["cleanups"][i] != exp_cl:
            viol(f"cleanup-mismatch:{labels[i].split(':')[0]}",
                 f"history {labels}: at request #{i} {labels[i]} the tracker destroyed "
                 f"{obs['cleanups'][i]}, the counting rule says {exp_cl}", labels)
        if bool(obs["reports"][i]) != exp_rep:
            viol(f"report-mismatch:{labels[i].split(':')[0]}",
                 f"history {labels}: request #{i} {labels[i]} reported={obs['reports'][i]} "
                 f"expected reported={exp_rep}", labels)
        if obs["reports"][i] > 1:
            viol("reported-twice", f"history {labels}: request #{i} reported {obs['reports'][i]}x",
                 labels)
        got = obs["registry"][i]
        if got is not None:
            gk = tuple(tuple(sorted(got[t].items())) for t in TYPES)
            if gk != m.key() and i < len(lines) - 1 or (i == len(lines) - 1 and got is not None
                                                         and gk != m.key()):
                viol(f"count-mismatch:{labels[i].split(':')[0]}",
                     f"history {labels}: after request #{i} {labels[i]} counts are {got}, "
                     f"the rule says {m.reg}", labels)
    exp = m.sweep()
    got = obs["sweep"]
    if sorted(got) != sorted(exp):
        viol("sweep-mismatch", f"history {labels}: end-of-life destroyed {got}, still counted "
                               f"were {exp}", labels)
    else:
        kinds = [t for t, _ in got]
        if "folder" in kinds and any(k != "folder" for k in kinds[kinds.index("folder"):]):
            viol("folders-not-last", f"history {labels}: end-of-life order {got}", labels)
    return m


def client_side(viol):
    """_send: one write of a whole line, or ValueError above the 512-byte limit."""
    import os as _os
    rt = common.load("loky.backend.resource_tracker")
    tr = rt.ResourceTracker()
    tr.ensure_running = lambda: None
    n = 0
    writes = []
    real_write = rt.os.write
    try:
        for ln in list(range(1, 40)) + list(range(480, 530)):
            name = "x" * ln
            for cmd in ("REGISTER", "UNREGISTER", "MAYBE_UNLINK"):
                writes.clear()
                tr._fd = 77
                import multiprocessing.resource_tracker as mrt
                mrt.os.write = lambda fd, b: (writes.append((fd, bytes(b))), len(b))[1]
                try:
                    tr._send(cmd, name, "file")
                    res = "sent"
                except ValueError:
                    res = "too-long"
                finally:
                    mrt.os.write = real_write
                n += 1
                msg = f"{cmd}:{name}:file\n".encode()
                if len(msg) > 512:
                    if res != "too-long" or writes:
                        viol("client-long-message", f"{len(msg)}-byte message was not refused",
                             [cmd, ln])
                elif res != "sent" or writes != [(77, msg)]:
                    viol("client-message-format", f"message for {cmd} len {ln}: {res} {writes[:1]}",
                         [cmd, ln])
    finally:
        tr._fd = None
    return n


def main(tier):
    rep = framework.Report("C11", tier, "model_checking")
    depth = 5 if tier == "quick" else 7
    h = Harness()
    seen_sig = {}

    def viol(sig, msg, labels):
        rep.add_violation(dict(signature=f"C11:{sig}", msg=msg, history=labels))

    ev = alphabet()
    seen = {Model().key()}
    frontier = collections.deque([[]])
    states = transitions = evaluations = 0
    samples = []
    maxd = 0
    while frontier:
        hist = frontier.popleft()
        if len(hist) >= depth:
            continue
        for e in ev + [TRUNC]:
            nh = hist + [e]
            m = check_history(h, nh, viol)
            evaluations += 1
            transitions += 1
            if m is None:
                continue
            if len(samples) < 4 and len(nh) >= 3:
                samples.append([l for l, _ in nh])
            k = m.key()
            if e is TRUNC:
                continue                    # a truncated line can only be the last one
            if k not in seen:
                seen.add(k)
                frontier.append(nh)
                maxd = max(maxd, len(nh))
        if len(rep.violations) > 200:
            break
    # with warnings turned into errors (python -W error is forwarded to the tracker) the
    # end-of-life sweep must still destroy everything that is counted
    h.warn_raises = True
    for e1 in ev[:18]:
        for e2 in ev[:18:5]:
            check_history(h, [e1, e2], lambda sig, msg, labels: viol("Werror:" + sig, msg, labels))
            evaluations += 1
    h.warn_raises = False
    ncli = client_side(viol)
    rep.coverage = dict(
        states=len(seen), transitions=transitions, traces_validated_against_impl=transitions,
        samples=samples or [["none"]], evaluations=evaluations + ncli,
        distinct_nontrivial=transitions,
        rule="BFS over request histories: from every distinct registry state reached within the "
             f"depth bound ({depth}) every event of a {len(ev) + 1}-event alphabet (3 commands x 2 "
             "names (one with ':') x 3 types, PROBE, unknown command/type, undecodable, "
             "separator-less, empty and truncated lines) is applied by re-running the real "
             "main() loop on the whole history followed by end-of-file; each (state, event) "
             "pair is one distinct transition compared with the reference model",
        max_depth=maxd, depth_bound=depth, client_messages_checked=ncli, exhaustive=True,
        exhaustive_note="all registry states reachable within the depth bound, all events from "
                        "each; states with equal registries have equal futures because the "
                        "registry is the only variable of the loop that survives an iteration")
    rep.assumptions = ["cleanup functions, open(), signal, sys and warnings of the tracker module "
                       "are substituted by recorders; the loop body itself is the real code"]
    code = rep.finish()
    print(f"[C11] tier={tier} states={len(seen)} transitions={transitions} depth<={depth} "
          f"violations={len(rep.violations)}")
    return code
