"""C08 - parallelism never exceeds max_workers and is actually delivered."""
from ..sim import programs as PG, simcheck

ORACLE = "vf.sim.props:c08"
MONITORS = "vf.sim.props:C08_MONITORS"


def plan(tier):
    PT = dict(kinds=("P", "T"))
    pl = [(PG.saturate(1, 1), 1, PT), (PG.saturate(2, 1), 1, PT), (PG.saturate(3, 1), 1, PT),
          (PG.saturate(2, 1, 0.05), 1, PT), (PG.saturate_after_idle(2), 1, PT),
          (PG.saturate_resize(1, 2), 1, PT), (PG.saturate_resize(3, 1), 1, PT),
          (PG.saturate_resize(2, 3, 0.05), 1, PT), (PG.two_submitters(2, 0.05), 1, PT),
          (PG.saturate(2, 2, None, "reusable"), 1, PT), (PG.saturate_partial_drain(3), 1, PT),
          (PG.saturate_partial_drain(2), 1, PT)]
    # the call queue of a reusable executor is sized once: a pool grown far beyond its first
    # size still gets every long task running; and (known finding F23) a pool larger than
    # 2*cpu_count()+1 does not
    pl += [(PG.saturate_resize(1, 4), 0 if tier == "quick" else 1, dict(kinds=("P",))),
           (PG.saturate_resize(1, 5), 0, dict(kinds=("P",))),
           (PG.saturate(5, 0, None, "reusable", cpu=1), 0, dict(kinds=("P",)))]
    # "the same executor, unchanged" (reuse=True without max_workers) asked of a pool that idle
    # timers may have drained partly or wholly: it still runs max_workers tasks at once
    pl += [(PG.reuse_true_after_drain(3), 1, dict(kinds=("T",))), (PG.reuse_true_after_drain(2), 1, dict(kinds=("T",)))]
    # a resize interrupted by an exception (warnings as errors) must not leave a half-updated pool
    pl += [(PG.interrupted_resize(3, 1), 1, PT), (PG.interrupted_resize(2, 1), 1, PT)]
    # idle timers expire while the last submit is in progress (timeout ~ 0 relative to that call),
    # the manager reacts at once
    ZS = dict(kinds=("P",), zero_when="submit", starve="eager:parent:manager")
    pl += [(PG.idle_exit_during_submit(2), 1, ZS), (PG.idle_exit_during_submit(2), 1, dict(kinds=("P",), zero_when="submit")),
           (PG.saturate_partial_drain(2), 1, ZS)]
    # ... two preemptions of the submitting thread by workers inside that submit (the idle
    # worker announces its exit, then completes it while the manager waits for it)
    ZS2 = dict(ZS, p_scope="worker", p_when="submit", p_cur="parent:main")
    pl += [(PG.idle_exit_during_submit(2), 2, ZS2)]
    if tier == "thorough":
        pl += [(PG.idle_exit_during_submit(2), 2, dict(ZS, p_scope="worker")),
               (PG.saturate_partial_drain(2), 2, ZS2)]
    pl += [(PG.respawn_race(2), 2, dict(kinds=("T", "P"), t_scope="parent:main", p_scope="parent:",
                                        p_when="_adjust_process_count"))]
    if tier == "thorough":
        pl += [(PG.saturate(2, 1, 0.05), 2, PT), (PG.saturate_resize(3, 1), 2, dict(kinds=("P",))),
               (PG.saturate_after_idle(2), 2, dict(kinds=("T",)))]
    # source-line granularity (one preemption at any line of loky run by a parent thread)
    pl += simcheck.line_plan([PG.two_submitters(2, 0.05), PG.saturate_after_idle(2)])
    if tier == "thorough":
        pl += simcheck.line_plan([p for p, _, _ in pl if "cpu1" not in p["name"]])
    return pl


def main(tier):
    return simcheck.run("C08", tier, plan(tier), ORACLE, MONITORS)
