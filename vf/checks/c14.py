"""C14 - synchronisation primitives keep their contracts under every interleaving.

Complete stateful exploration (vf.c14engine) of small harnesses over the real
loky.backend.synchronize Lock / RLock / Semaphore / BoundedSemaphore / Condition / Event, with
threads of one process and with per-"process" copies rebuilt from the pickled state."""
import multiprocessing as mp
import os
import sys
import time

from .. import framework
from .. import c14engine as E
from ..q import common

HERE = os.path.abspath(__file__)


# ---- harness builders: build(S, syn) -> (fns, oracle) ---------------------------------------
def mutex(kind, nthreads=3, rounds=2, copies=False):
    def build(S, syn):
        base = getattr(syn, kind)()
        locks = [E.clone_for_process(syn, base) if copies else base for _ in range(nthreads)]
        out = S.out
        out["in"] = 0
        out["max"] = 0

        def mk(i):
            lk = locks[i]

            def h_worker():
                for r in range(rounds):
                    lk.acquire()
                    if kind == "RLock":
                        lk.acquire()          # re-entrant for its owner
                    out["in"] += 1
                    if out["in"] > out["max"]:
                        out["max"] = out["in"]
                    S.point(("cs", i))
                    out["in"] -= 1
                    if kind == "RLock":
                        lk.release()
                    lk.release()
            return h_worker

        def oracle(S, v):
            r = []
            if out["max"] > 1:
                r.append((f"mutual-exclusion:{kind}", f"{out['max']} threads inside the critical "
                                                      f"section of a {kind}"))
            if v != "ok":
                r.append((f"deadlock:{kind}", f"mutex harness ended {v}: {S.blocked}"))
            return r
        return [(f"t{i}", mk(i)) for i in range(nthreads)], oracle
    return build


def rlock_foreign(copies=False):
    def build(S, syn):
        base = syn.RLock()
        other = E.clone_for_process(syn, base) if copies else base
        out = S.out

        def h_owner():
            base.acquire()
            out["held"] = 1
            S.point(("hold",))
            out["still_mine"] = base._semlock._is_mine()
            base.release()

        def h_intruder():
            try:
                other.release()
                out["foreign"] = "released"
            except AssertionError:
                out["foreign"] = "AssertionError"
            r = other.acquire(False)
            out["intruder_got"] = (r, out.get("held", 0), "still_mine" in out)
            if r:
                other.release()

        def oracle(S, v):
            r = []
            if out.get("foreign") != "AssertionError":
                r.append(("rlock-foreign-release", "a thread that does not own the RLock could "
                                                   "release it"))
            if out.get("still_mine") is not True:
                r.append(("rlock-ownership-lost", "owner no longer owns the RLock"))
            g = out.get("intruder_got")
            if g and g[0] and g[1] == 1 and not g[2]:
                r.append(("rlock-not-exclusive", "RLock acquired by a second thread while held"))
            if v != "ok":
                r.append(("deadlock:rlock-foreign", f"{v}: {S.blocked}"))
            return r
        return [("owner", h_owner), ("intruder", h_intruder)], oracle
    return build


def semaphore(n, nthreads=3, bounded=False, copies=False):
    def build(S, syn):
        base = (syn.BoundedSemaphore if bounded else syn.Semaphore)(n)
        sems = [E.clone_for_process(syn, base) if copies else base for _ in range(nthreads)]
        out = S.out
        out["in"] = 0
        out["max"] = 0

        def mk(i):
            sm = sems[i]

            def h_holder():
                sm.acquire()
                out["in"] += 1
                if out["in"] > out["max"]:
                    out["max"] = out["in"]
                S.point(("cs", i))
                out["in"] -= 1
                sm.release()
                if bounded and i == 0:
                    # only once everybody is out can an extra release be an over-release
                    pass
            return h_holder

        def h_over():
            try:
                base.release()
                out["over"] = "released"
                base.acquire()
            except ValueError:
                out["over"] = "ValueError"

        def oracle(S, v):
            r = []
            if out["max"] > n:
                r.append((f"semaphore-holders:{n}", f"{out['max']} holders of a Semaphore({n})"))
            if v != "ok":
                r.append(("deadlock:semaphore", f"{v}: {S.blocked}"))
            return r
        return [(f"t{i}", mk(i)) for i in range(nthreads)], oracle
    return build


def bounded_over_release(copies=False):
    def build(S, syn):
        base = syn.BoundedSemaphore(1)
        other = E.clone_for_process(syn, base) if copies else base
        out = S.out

        def h_a():
            base.acquire()
            S.point(("cs",))
            base.release()
            out["a"] = 1

        def h_b():
            # a release that is not matched by an acquire is refused when the value is full;
            # (while `a` holds the semaphore an unmatched release cannot be told apart from a
            # legitimate one, so it is only attempted once `a` is done)
            if out.get("a") == 1:
                try:
                    other.release()
                    out["over"] = "released"
                except ValueError:
                    out["over"] = "ValueError"

        def oracle(S, v):
            r = []
            val = S.sems[base._semlock.name].value
            if out.get("over") == "released":
                r.append(("bounded-over-release-accepted", "release() of a full BoundedSemaphore "
                                                           "did not raise ValueError"))
            if val > 1:
                r.append(("bounded-over-release", f"BoundedSemaphore(1) reached value {val}"))
            if v != "ok":
                r.append(("deadlock:bounded", f"{v}: {S.blocked}"))
            return r
        return [("a", h_a), ("b", h_b)], oracle
    return build


def condition(timed, ops, lock="RLock", rounds=1, copies=False):
    """len(timed) waiters (timed[i] -> wait with a timeout that may fire at any instant), one
    notifier performing ops in order; each waiter waits `rounds` times."""
    W = len(timed)

    def build(S, syn):
        base = syn.Condition(getattr(syn, lock)()) if lock != "RLock" else syn.Condition()
        conds = [E.clone_for_process(syn, base) if copies else base for _ in range(W + 1)]
        out = S.out

        def mk(i):
            c = conds[i]

            def h_waiter():
                for r in range(rounds):
                    with c:
                        out[f"sleep{i}.{r}"] = 1
                        res = c.wait(1.0 if timed[i] else None)
                        out[f"mine{i}.{r}"] = c._lock._semlock._is_mine()
                        out[f"ret{i}.{r}"] = res
            return h_waiter

        def h_notifier():
            c = conds[W]
            for j, op in enumerate(ops):
                with c:
                    out[f"n{j}.sleepers"] = tuple(sorted(
                        k[5:] for k in out if k.startswith("sleep") and ("ret" + k[5:]) not in out))
                    getattr(c, op)()
                    out[f"n{j}.done"] = 1

        def oracle(S, v):
            r = []
            blocked = {b[0] for b in S.blocked}
            fired = {i: out.get(f"fired:w{i}", 0) for i in range(W)}
            rets = {k[3:]: val for k, val in out.items() if k.startswith("ret")}
            for k, val in rets.items():
                i = int(k.split(".")[0])
                if out.get("mine" + k) is not True:
                    r.append(("wait-returns-without-lock", f"wait #{k} returned without the lock"))
                if val is False and not timed[i]:
                    r.append(("wait-false-without-timeout", f"untimed wait #{k} returned False"))
            for i in range(W):
                nfalse = sum(1 for k, val in rets.items() if int(k.split(".")[0]) == i and val is False)
                if nfalse > fired[i]:
                    r.append(("wait-false-but-timer-did-not-fire",
                              f"waiter {i}: {nfalse} False returns, timer fired {fired[i]}x"))
            if "n" in blocked:
                r.append(("notifier-stuck", f"notifier blocked for ever at {S.blocked}"))
            woken = sum(1 for val in rets.values() if val is True)
            budget = 0
            for j, op in enumerate(ops):
                sl = out.get(f"n{j}.sleepers")
                if sl is None:
                    continue
                budget += 1 if op == "notify" else len(sl)
                if op == "notify_all" and f"n{j}.done" in out:
                    for k in sl:
                        i = int(k.split(".")[0])
                        if rets.get(k) is not True and fired[i] == 0 and rounds == 1:
                            r.append(("notify_all-missed-waiter",
                                      f"waiter {k} slept before notify_all #{j}, its timer never "
                                      f"fired, yet it was not woken (ret={rets.get(k)}, "
                                      f"blocked={sorted(blocked)})"))
            if woken > budget:
                r.append(("woken-more-than-notified", f"{woken} waiters woken by {ops}"))
            if ops == ["notify"] and rounds == 1 and "n0.done" in out:
                sl = out.get("n0.sleepers", ())
                owed = [k for k in sl if fired[int(k.split(".")[0])] == 0]
                if owed and woken == 0:
                    r.append(("notify-lost-wakeup",
                              f"notify() with sleepers {sl} woke nobody although {owed} never "
                              f"timed out (timers fired: {fired}); still blocked: {sorted(blocked)}"))
            # counters: nothing owed -> wait semaphore is zero, sleeping - woken = #asleep
            if "n" not in blocked and all(f"n{j}.done" in out for j in range(len(ops))):
                c = base
                ws = S.sems[c._wait_semaphore._semlock.name].value
                sc = S.sems[c._sleeping_count._semlock.name].value
                wc = S.sems[c._woken_count._semlock.name].value
                asleep = len([b for b in blocked if b.startswith("w")])
                if ws != 0 and asleep == 0:
                    r.append(("stale-wakeup-token", f"wait semaphore left at {ws} with nobody asleep"))
                if sc - wc != asleep:
                    r.append(("sleeper-count-drift", f"sleeping-woken = {sc - wc}, asleep = {asleep}"))
            return r
        fns = [(f"w{i}", mk(i)) for i in range(W)] + [("n", h_notifier)]
        return fns, oracle
    return build


def wait_for_harness(timed, op="notify_all", copies=False):
    """Waiters in wait_for(flag is set, timeout); one thread sets the flag and notifies."""
    W = len(timed)

    def build(S, syn):
        base = syn.Condition()
        conds = [E.clone_for_process(syn, base) if copies else base for _ in range(W + 1)]
        out = S.out
        flag = [False]

        def mk(i):
            c = conds[i]

            def h_waiter():
                with c:
                    res = c.wait_for(lambda: flag[0], 1.0 if timed[i] else None)
                    out[f"ret{i}"] = bool(res)
                    out[f"flag{i}"] = flag[0]
                    out[f"mine{i}"] = c._lock._semlock._is_mine()
            return h_waiter

        def h_setter():
            c = conds[W]
            with c:
                flag[0] = True
                out["set"] = 1
                getattr(c, op)()

        def oracle(S, v):
            r = []
            blocked = {b[0] for b in S.blocked}
            for i in range(W):
                if f"ret{i}" in out:
                    if out[f"mine{i}"] is not True:
                        r.append(("wait_for-returns-without-lock", f"waiter {i}"))
                    if out[f"ret{i}"] != out[f"flag{i}"]:
                        r.append(("wait_for-wrong-result",
                                  f"waiter {i}: wait_for returned {out[f'ret{i}']} while the "
                                  f"predicate was {out[f'flag{i}']}"))
                    if out[f"ret{i}"] is False and not timed[i]:
                        r.append(("wait_for-false-without-timeout", f"waiter {i}"))
                    if out[f"ret{i}"] is False and out.get(f"fired:w{i}", 0) == 0:
                        r.append(("wait_for-false-but-timer-did-not-fire", f"waiter {i}"))
                elif f"w{i}" in blocked and op == "notify_all" and "set" in out and "s" not in blocked:
                    r.append(("wait_for-missed-wakeup",
                              f"waiter {i} still asleep although the flag was set and notify_all "
                              f"called: {S.blocked}"))
            if "s" in blocked:
                r.append(("notifier-stuck", f"{S.blocked}"))
            return r
        return [(f"w{i}", mk(i)) for i in range(W)] + [("s", h_setter)], oracle
    return build


def event(prog, copies=False):
    """prog: list of per-thread op lists over set / clear / wait / twait.
    set/clear/wait all end with the release of the event's internal lock and the harness records
    the outcome in the same atomic step, so the record order is the order of the critical
    sections: Event.wait must return exactly the flag state left by the last earlier set/clear."""
    def build(S, syn):
        base = syn.Event()
        evs = [E.clone_for_process(syn, base) if copies else base for _ in prog]
        out = S.out
        out["seq"] = 0

        def rec(key, val):
            out["seq"] += 1
            out[key] = (out["seq"], val)

        def mk(i, ops):
            ev = evs[i]

            def h_actor():
                for j, op in enumerate(ops):
                    if op == "set":
                        ev.set()
                        rec(f"op{i}.{j}", "set")
                    elif op == "clear":
                        ev.clear()
                        rec(f"op{i}.{j}", "clear")
                    elif op == "wait":
                        rec(f"op{i}.{j}", ("wait", ev.wait()))
                    elif op == "twait":
                        rec(f"op{i}.{j}", ("wait", ev.wait(1.0)))
                    elif op == "is_set":
                        rec(f"op{i}.{j}", ("is_set", ev.is_set()))
            return h_actor

        def oracle(S, v):
            r = []
            events = sorted(val for k, val in out.items() if k.startswith("op"))
            state = False
            for seq, what in events:
                if what == "set":
                    state = True
                elif what == "clear":
                    state = False
                else:
                    if what[1] is not state:
                        r.append((f"event-wait-returns-{what[1]}-while-{'set' if state else 'clear'}",
                                  f"Event.wait returned {what[1]} although the event was "
                                  f"{'set' if state else 'not set'} when it returned (order of "
                                  f"critical sections: {[e[1] for e in events]})"))
                        break
            for seq, what in events:
                if what in ("set", "clear"):
                    state = what == "set"
            if v == "ok":
                # the flag semaphore is exactly the state left by the last set/clear
                fv = S.sems[base._flag._semlock.name].value
                if fv != (1 if state else 0):
                    r.append((f"event-flag-drift:{fv}-while-{'set' if state else 'clear'}",
                              f"all operations returned, last of set/clear leaves the event "
                              f"{'set' if state else 'clear'}, but its flag semaphore is {fv} "
                              f"(order of critical sections: {[e[1] for e in events]})"))
            blocked = [b for b in S.blocked]
            if v != "ok":
                stuck = [b[0] for b in blocked]
                # a waiter may stay blocked only if the event is not set at the end
                if state and any(prog[int(n[1:])][-1] in ("wait",) or True for n in stuck):
                    r.append(("event-waiter-stuck", f"event is set, yet {blocked} blocked for ever"))
                if any(prog[int(n[1:])][len([k for k in out if k.startswith(f'op{n[1:]}.')])]
                       in ("set", "clear") for n in stuck
                       if len([k for k in out if k.startswith(f'op{n[1:]}.')]) < len(prog[int(n[1:])])):
                    r.append(("event-setter-stuck", f"{blocked}"))
            return r
        return [(f"t{i}", mk(i, ops)) for i, ops in enumerate(prog)], oracle
    return build


def harnesses(tier):
    H = []
    for cp in (False, True):
        tag = "/copies" if cp else ""
        H += [(f"mutex-Lock{tag}", mutex("Lock", 3, 2, cp)), (f"mutex-RLock{tag}", mutex("RLock", 3, 2, cp)),
              (f"rlock-foreign{tag}", rlock_foreign(cp)),
              (f"semaphore-1{tag}", semaphore(1, 3, False, cp)), (f"semaphore-2{tag}", semaphore(2, 3, False, cp)),
              (f"bounded-2{tag}", semaphore(2, 3, True, cp)), (f"bounded-over-release{tag}", bounded_over_release(cp)),
              (f"cond-W1-untimed-notify{tag}", condition([False], ["notify"], copies=cp)),
              (f"cond-W1-timed-notify{tag}", condition([True], ["notify"], copies=cp)),
              (f"cond-W2-notify{tag}", condition([True, False], ["notify"], copies=cp)),
              (f"cond-W2-notify_all{tag}", condition([True, False], ["notify_all"], copies=cp)),
              (f"cond-W2-untimed-notify_all{tag}", condition([False, False], ["notify_all"], copies=cp)),
              (f"cond-W2-Lock-notify_all{tag}", condition([True, False], ["notify_all"], lock="Lock", copies=cp)),
              (f"event-set-wait{tag}", event([["set"], ["wait"], ["twait"]], cp)),
              (f"event-set-clear-wait{tag}", event([["set", "clear"], ["twait"], ["twait"]], cp)),
              (f"event-is_set-vs-wait{tag}", event([["set"], ["is_set", "is_set"], ["twait"]], cp)),
              (f"event-is_set-vs-clear{tag}", event([["set", "clear"], ["is_set"], ["is_set"]], cp)),
              (f"event-is_set-vs-set{tag}", event([["set", "set", "clear"], ["is_set"]], cp))]
    H += [("cond-W1-two-rounds", condition([True], ["notify", "notify"], rounds=2)),
          ("cond-W2-notify-notify", condition([True, False], ["notify", "notify"])),
          ("cond-W3-notify_all", condition([True, False, False], ["notify_all"])),
          # several time-outs landing inside one notify_all / notify
          ("cond-W2-both-timed-notify_all", condition([True, True], ["notify_all"])),
          ("cond-W2-both-timed-notify_all-Lock", condition([True, True], ["notify_all"], lock="Lock")),
          ("cond-W2-both-timed-notify", condition([True, True], ["notify"])),
          ("wait_for-W2", wait_for_harness([True, False])),
          ("wait_for-W1-timed-notify", wait_for_harness([True], "notify")),
          ("wait_for-W2/copies", wait_for_harness([True, True], copies=True))]
    if tier == "thorough":
        H += [("cond-W3-all-timed-notify_all", condition([True, True, True], ["notify_all"])),
              ("cond-W2-both-timed-notify_all-notify", condition([True, True], ["notify_all", "notify"])),
              ("cond-W2-both-timed-notify_all/copies", condition([True, True], ["notify_all"], copies=True))]
    if tier == "thorough":
        H += [("cond-W3-notify-notify", condition([True, False, False], ["notify", "notify"])),
              ("cond-W3-notify-notify_all", condition([True, True, False], ["notify", "notify_all"])),
              ("cond-W2-two-rounds", condition([True, False], ["notify_all", "notify_all"], rounds=2)),
              ("cond-W3-notify_all/copies", condition([True, False, False], ["notify_all"], copies=True)),
              ("mutex-Lock-4", mutex("Lock", 4, 2)), ("semaphore-2of4", semaphore(2, 4)),
              ("event-two-setters", event([["set"], ["clear", "set"], ["wait"], ["twait"]]))]
    return H


def _run_one(args):
    name, tier = args
    build = dict(harnesses(tier))[name]
    t0 = time.time()
    res = E.explore(build, common.REPO, (HERE,))
    res["name"] = name
    res["wall"] = round(time.time() - t0, 1)
    res["outcomes"] = len(res["outcomes"])
    return res


def main(tier):
    rep = framework.Report("C14", tier, "model_checking")
    names = [n for n, _ in harnesses(tier)]
    nproc = int(os.environ.get("VF_NPROC", "0")) or max(1, (os.cpu_count() or 2) - 2)
    ctx = mp.get_context("fork")
    with ctx.Pool(min(nproc, len(names))) as pool:
        results = pool.map(_run_one, [(n, tier) for n in names], chunksize=1)
    states = transitions = execs = 0
    per = []
    samples = []
    incomplete = []
    for res in results:
        states += res["states"]
        transitions += res["transitions"]
        execs += res["executions"]
        per.append(dict(harness=res["name"], states=res["states"], transitions=res["transitions"],
                        executions=res["executions"], terminal_outcomes=res["outcomes"],
                        complete=res["complete"], wall_s=res["wall"]))
        if not res["complete"]:
            incomplete.append(res["name"])
        seen = set()
        for sig, msg, choices in res["violations"]:
            rep.add_violation(dict(signature=f"C14:{sig}|{res['name'].split('/')[0]}",
                                   msg=f"[{res['name']}] {msg}", harness=res["name"], choices=choices))
        if len(samples) < 4:
            samples.append(dict(harness=res["name"], states=res["states"],
                                terminal_outcomes=res["outcomes"]))
    if incomplete:
        rep.internal.append(dict(error=f"harnesses not explored completely: {incomplete}"))
    rep.coverage = dict(states=states, transitions=transitions, traces_validated_against_impl=execs,
                        samples=samples, evaluations=execs, distinct_nontrivial=states,
                        harnesses=per, exhaustive=True,
                        rule="complete DFS with a visited set over all interleavings and all "
                             "firing instants of timed waits of each harness; the code explored "
                             "is the real synchronize.py; a state = semaphore values, SemLock "
                             "ownership counters, per-thread stack of (function, bytecode offset, "
                             "scalar locals), harness result variables")
    rep.assumptions = ["SimSemLock == _multiprocessing.SemLock (POSIX) as bound by vf.selftest",
                       "kernel fairness is not assumed; a timed acquire may time out at any "
                       "decision point at which it is blocked"]
    code = rep.finish()
    print(f"[C14] tier={tier} harnesses={len(names)} states={states} transitions={transitions} "
          f"executions={execs} violations={len(rep.violations)}")
    return code
