"""C12 - one resource tracker serves the whole process tree and is self-healing.

(R) real trees of depth 0..2 under both loky start methods: every member reports the same
tracker; SIGINT/SIGTERM do not terminate it; after 2-3 kills of the tracker the next tracked
operation starts a new one (warning, no zombie, no fd growth); the end-of-life cleanup of a
registered scratch file happens after, and only after, the last member is gone (root killed
or exited while a child lives).  (Q) the real tracker loop survives every malformed request
(shared with C11's BFS) and ensure_running's decision table over a fake OS."""
import types

from .. import framework
from ..q import common


def q_part(rep):
    """ensure_running / _check_alive over a fake os: alive, dead, dead-and-spawn-fails."""
    rt = common.load("loky.backend.resource_tracker")
    import multiprocessing.resource_tracker as mrt
    n = 0
    saved = dict(os=rt.os, spawn=rt.spawnv_passfds, warn=rt.warnings.warn, mos=mrt.os)
    try:
        for state in ("none", "alive", "dead"):
            for spawn_ok in (True, False):
                n += 1
                log = []
                closed = []
                fake = types.SimpleNamespace()
                fake.__dict__.update({k: getattr(saved["os"], k) for k in dir(saved["os"])
                                      if not k.startswith("__")})
                fds = iter(range(100, 200))
                fake.pipe = lambda: (next(fds), next(fds))
                fake.close = lambda fd: closed.append(fd)
                fake.waitpid = lambda pid, flag: log.append(("waitpid", pid)) or (pid, 0)

                def write(fd, data, state=state):
                    if state == "dead" and fd == 55:
                        raise OSError("dead tracker")
                    log.append(("write", fd, bytes(data)))
                    return len(data)
                fake.write = write
                rt.os = fake
                mrt.os = fake

                def spawn(path, args, passfds, spawn_ok=spawn_ok):
                    if not spawn_ok:
                        raise OSError("cannot spawn")
                    log.append(("spawn", tuple(passfds)))
                    return 4242
                rt.spawnv_passfds = spawn
                warns = []
                rt.warnings.warn = lambda m, *a, **k: warns.append(str(m))
                tr = rt.ResourceTracker()
                if state != "none":
                    tr._fd, tr._pid = 55, 777
                try:
                    tr.ensure_running()
                    outcome = "ok"
                except OSError:
                    outcome = "raised"
                exp_spawn = state in ("none", "dead")
                spawned = any(l[0] == "spawn" for l in log)
                problems = []
                if state == "alive" and (spawned or tr._pid != 777 or warns):
                    problems.append("live tracker replaced")
                if exp_spawn and spawn_ok and (not spawned or tr._pid != 4242 or outcome != "ok"):
                    problems.append("no new tracker")
                if state == "dead" and (55 not in closed or ("waitpid", 777) not in log
                                        or not any("died unexpectedly" in w for w in warns)):
                    problems.append("dead tracker not cleaned up (close/waitpid/warning)")
                if exp_spawn and not spawn_ok:
                    if outcome != "raised" or tr._fd is not None:
                        problems.append("failed spawn leaves a half-configured tracker")
                    w_end = [fd for fd in closed if fd >= 100]
                    if len(w_end) < 2:
                        problems.append(f"pipe ends leaked after failed spawn (closed {closed})")
                if exp_spawn and spawn_ok:
                    rfd = [l[1] for l in log if l[0] == "spawn"][0]
                    if not any(fd in closed for fd in rfd if fd >= 100):
                        problems.append("parent keeps the read end of the tracker pipe")
                for pr in problems:
                    rep.add_violation(dict(signature=f"C12:Q:ensure_running:{state}:{spawn_ok}:{pr[:30]}",
                                           msg=f"state={state} spawn_ok={spawn_ok}: {pr}; log={log} "
                                               f"closed={closed} warns={warns}"))
    finally:
        rt.os = saved["os"]
        mrt.os = saved["mos"]
        rt.spawnv_passfds = saved["spawn"]
        rt.warnings.warn = saved["warn"]
    return n


def main(tier):
    rep = framework.Report("C12", tier, "fault_enumeration")
    nq = q_part(rep)
    # robustness of the tracker loop against every malformed request (the C11 BFS at depth 2)
    from . import c11
    h = c11.Harness()
    nb = 0
    for e1 in c11.alphabet():
        for e2 in c11.alphabet() + [c11.TRUNC]:
            nb += 1
            c11.check_history(h, [e1, e2], lambda sig, msg, labels: rep.add_violation(
                dict(signature=f"C12:tracker-loop:{sig}", msg=msg)) if sig in (
                    "tracker-loop-died", "stopped-consuming") else None)
    # (S) the tracker client under every thread interleaving with few preemptions
    from . import c12s
    if tier == "quick":
        sr = c12s.explore_all(2, {"cold-2": 4, "dead-2": 4, "dead-getfd": 4, "live-1-killer-two-ops": 4})
    else:
        sr = c12s.explore_all(4, {"cold-2": 6, "dead-2": 6, "dead-getfd": 6, "live-1-killer-two-ops": 6})
    for v in sr["violations"]:
        rep.add_violation(v)
    rep.internal = list(getattr(rep, "internal", [])) + sr["internal"]
    from ..real import treereal
    r = treereal.run_c12(tier)
    for sig, msg, case in r["violations"]:
        rep.add_violation(dict(signature=sig, msg=msg, case=case))
    rep.coverage = dict(
        evaluations=nq + nb + r["cases"] + sr["executions"],
        distinct_nontrivial=nq + nb + r["cases"] + sr["executions"],
        client_schedules=dict(executions=sr["executions"], per_program=sr["per_program"],
                              preemption_bounds=sr["bounds"], states=len(sr["states"]),
                              transitions=len(sr["transitions"]), outcome_classes=len(sr["outcomes"])),
        states=len(sr["states"]), transitions=len(sr["transitions"]),
        samples=r["samples"][:4] or [{}], real_cases=r["cases"], ensure_running_configs=nq,
        tracker_loop_histories=nb, exhaustive=False,
        rule="(R) tree depth x start method x 2-3 tracker deaths, 2 end-of-life orderings, on "
             "real processes; (Q) 6 ensure_running configurations over a fake os; all 2-request "
             "histories over the C11 alphabet for loop survival; (S) the real ResourceTracker "
             "client class in 2-3 threads (+ a thread that kills the tracker) over a model of "
             "pipes and tracker processes: every schedule within the stated preemption bound per "
             "program; every case distinct")
    rep.assumptions = ["signals are delivered to an idle tracker and at three named points of its "
                       "start-up (paused there through the LOKY_VERIF hooks); finer delivery "
                       "instants are not enumerated"]
    code = rep.finish()
    print(f"[C12] tier={tier} q={nq} loop_histories={nb} client_schedules={sr['executions']} "
          f"real_cases={r['cases']} "
          f"violations={len(rep.violations)}")
    return code
