"""C09 - get_reusable_executor always returns a live, correctly configured singleton.

(histories) BFS over sequences of calls / crashes / shutdowns / idle periods / submissions,
each history executed on the real code in engine S and compared step by step with a reference
model of the documented decision; (schedules) two and three threads racing through
get_reusable_executor with the same or different max_workers, all schedules within the bound."""
import collections
import itertools

from .. import framework
from ..sim import explore, programs as PG, simcheck

ORACLE = "vf.sim.props:c09"


def events(timeout):
    ev = []
    for mw in (1, 2):
        for reuse in ("auto", True, False):
            for arg in ("same", "timeout", "init"):
                kw = dict(max_workers=mw, reuse=reuse)
                if arg == "timeout":
                    kw["timeout"] = 7
                elif arg == "init":
                    kw["init"] = "ok"
                ev.append(("get", kw))
    ev.append(("get", dict(max_workers=2, reuse=False, kill_workers=True)))
    ev.append(("get", dict(reuse=True)))
    ev += [("crash",), ("shutdown",), ("submit",), ("shutdown_nowait",), ("submit_pending",)]
    if timeout:
        ev.append(("idle",))
    return ev


def to_ops(hist):
    ops = [["new"]]
    k = 0
    for e in hist:
        if e[0] == "get":
            ops.append(["reuse", dict(e[1])])
        elif e[0] == "crash":
            ops += [["kill", 0], ["settle"]]
        elif e[0] == "shutdown":
            ops.append(["shutdown", True, False])
        elif e[0] == "shutdown_nowait":
            ops.append(["shutdown", False, False])
        elif e[0] == "submit_pending":
            ops.append(["submit", f"p{k}", "ok", k])
            k += 1
        elif e[0] == "idle":
            ops.append(["sleep", 0.3])
        elif e[0] == "submit":
            ops += [["submit", f"s{k}", "ok", k], ["result", f"s{k}"]]
            k += 1
    ops.append(["shutdown", True, False])
    return ops


def model_key(hist, timeout):
    """Canonical model state reached by a history (used to deduplicate the BFS frontier)."""
    m = dict(kw=(timeout, None), mw=2, broken=False, shut=False, started=False, nowait=False,
             pending=False, idle=False)
    for e in hist:
        if e[0] == "get":
            kw = e[1]
            newkw = (kw.get("timeout", timeout), kw.get("init"))
            reuse = kw.get("reuse", "auto")
            if reuse == "auto":
                reuse = newkw == m["kw"]
            if m["broken"] or m["shut"] or not reuse:
                m = dict(kw=newkw, mw=kw.get("max_workers", 2), broken=False, shut=False,
                         started=False, nowait=False, pending=False, idle=False)
            else:
                m["mw"] = kw.get("max_workers", m["mw"])
        elif e[0] == "crash" and m["started"] and not m["shut"]:
            m["broken"] = True
        elif e[0] in ("shutdown", "shutdown_nowait"):
            m["shut"] = True
            m["nowait"] = e[0] == "shutdown_nowait"
        elif e[0] in ("submit", "submit_pending") and not (m["broken"] or m["shut"]):
            m["started"] = True
            m["pending"] = e[0] == "submit_pending"
            m["idle"] = False
        elif e[0] == "idle":
            m["idle"] = True
    # fields the implementation can tell apart, not only those of the documented decision
    return (m["kw"], m["mw"], m["broken"], m["shut"], m["started"], m["nowait"], m["pending"],
            m["idle"])


def histories(depth, timeout):
    ev = events(timeout)
    seen = {model_key((), timeout)}
    frontier = collections.deque([()])
    out = []
    while frontier:
        h = frontier.popleft()
        for e in ev:
            nh = h + (e,)
            out.append(nh)
            k = model_key(nh, timeout)
            if k not in seen and len(nh) < depth:
                seen.add(k)
                frontier.append(nh)
    return out, len(seen)


def racing(a, b, n=2, timeout=None):
    thr = [[["new"]]] + [[["reuse", dict(max_workers=(a if i % 2 == 0 else b))],
                          ["submit", f"r{i}", "ok", i], ["result", f"r{i}"]] for i in range(n)]
    thr[0] += [["reuse", dict(max_workers=b)], ["submit", "m", "ok", 9], ["result", "m"]]
    return dict(name=f"racing-get-{a}-{b}-x{n}-t{timeout}",
                pool=dict(kind="reusable", max_workers=a, timeout=timeout), threads=thr)


def racing_from(start, kws, timeout=None):
    """Callers racing from a state where the singleton has to be created or replaced:
    start in cold / broken / shutdown / healthy; kws = one kwargs dict per racing thread."""
    pre = {"cold": [], "healthy": [["new"], ["submit", "s", "ok", 0], ["result", "s"]],
           "broken": [["new"], ["submit", "s", "ok", 0], ["result", "s"], ["kill", 0], ["settle"]],
           "shutdown": [["new"], ["submit", "s", "ok", 0], ["result", "s"],
                        ["shutdown", True, False]]}[start]
    thr = [pre + [["start_users"]]]
    for i, kw in enumerate(kws):
        thr.append([["reuse", dict(kw)], ["submit", f"r{i}", "ok", i], ["result", f"r{i}"]])
    thr[0] += [["reuse", dict(kws[0])], ["submit", "m", "ok", 9], ["result", "m"]]
    tag = "+".join(",".join(f"{k}={v}" for k, v in sorted(kw.items())) for kw in kws)
    return dict(name=f"racing-from-{start}-{tag}-t{timeout}",
                pool=dict(kind="reusable", max_workers=2, timeout=timeout), threads=thr)


def main(tier):
    depth = 3 if tier == "quick" else 4
    plan = []
    nstates = 0
    for timeout in (None, 0.05):
        hs, ns = histories(depth, timeout)
        nstates += ns
        for i, h in enumerate(hs):
            prog = dict(name=f"hist-t{timeout}-" + "/".join(
                (e[0] + ("" if len(e) == 1 else ":" + ",".join(f"{k}={v}" for k, v in sorted(e[1].items())))
                 for e in h)), pool=dict(kind="reusable", max_workers=2, timeout=timeout, cpu_count=2),
                threads=[to_ops(h)])
            plan.append((prog, 0, dict(kinds=())))
    PT = dict(kinds=("P", "T"))
    plan += [(PG.reusable_resize(2, 1, 0.05), 1, dict(kinds=("P",), zero_when="_resize", p_scope="worker")),
             (racing(1, 2, 2, None), 1, PT), (racing(2, 2, 2, 0.05), 1, PT),
             (racing(2, 1, 3, None), 1, dict(kinds=("P",)))]
    Ponly = dict(kinds=("P",))
    for start in ("cold", "broken", "shutdown", "healthy"):
        plan.append((racing_from(start, [dict(max_workers=2), dict(max_workers=2)]), 1, Ponly))
    plan += [(racing_from("healthy", [dict(max_workers=2, timeout=7), dict(max_workers=2)]), 1, Ponly),
             (racing_from("cold", [dict(max_workers=1), dict(max_workers=2)]), 1, Ponly),
             (racing_from("healthy", [dict(max_workers=3), dict(max_workers=2, timeout=7)]), 1, Ponly),
             (racing_from("healthy", [dict(max_workers=1), dict(max_workers=2, timeout=7)]), 1, Ponly),
             (racing_from("healthy", [dict(max_workers=2, timeout=7), dict(max_workers=1, timeout=7)]), 1, Ponly)]
    # the caller learns from a future that the pool broke and asks again at once
    plan += [(PG.crash_then_reuse(2, 3), 1, PT), (PG.crash_then_reuse(1, 2), 1, PT)]
    # get_reusable_executor re-entered from done-callbacks / racing with callbacks that submit
    plan += [(PG.reuse_in_callback(2, 3), 1, PT), (PG.reuse_in_callback(3, 1), 0, PT),
             (PG.reuse_in_callback(2, 2), 1, PT), (PG.resize_vs_callback_submit(1, 3), 1, PT)]
    # the reused-and-resized executor really runs the requested number of tasks at once
    plan += [(PG.saturate_resize(1, 4), 0, PT), (PG.saturate_resize(1, 3), 1, PT),
             (PG.saturate_resize(2, 4), 0, PT), (PG.saturate_resize(3, 1), 0, PT),
             (PG.saturate_resize(2, 3, 0.05), 0, PT)]
    plan += [(PG.reuse_true_after_drain(3), 1, dict(kinds=("T",)))]
    # source-line granularity: the decision logic of get_reusable_executor under one preemption
    # at any line
    plan += simcheck.line_plan([racing_from("cold", [dict(max_workers=2), dict(max_workers=2)]),
                                racing_from("broken", [dict(max_workers=2), dict(max_workers=2)]),
                                racing(1, 2, 2, None)])
    if tier == "thorough":
        plan += simcheck.line_plan([racing_from(st, [dict(max_workers=2, timeout=7), dict(max_workers=1)])
                                    for st in ("cold", "broken", "shutdown", "healthy")]
                                   + [racing(2, 1, 3, None), PG.reusable_resize(2, 1, 0.05)])
        for start in ("cold", "broken", "shutdown", "healthy"):
            plan.append((racing_from(start, [dict(max_workers=1), dict(max_workers=2), dict(max_workers=2)]), 1, Ponly))
            plan.append((racing_from(start, [dict(max_workers=2, reuse=False), dict(max_workers=2)]), 1, Ponly))
            plan.append((racing_from(start, [dict(max_workers=2), dict(max_workers=2)], 0.05), 1, dict(kinds=("P", "T"))))
        plan += [(racing_from("broken", [dict(max_workers=2), dict(max_workers=2)]), 2, Ponly),
                 (racing_from("cold", [dict(max_workers=2), dict(max_workers=2)]), 2, Ponly)]
        plan += [(racing(1, 2, 2, None), 2, dict(kinds=("P",))), (racing(2, 3, 2, 0.05), 1, dict(kinds=("P", "T", "K")))]
    return simcheck.run("C09", tier, plan, ORACLE,
                        extra_cov=dict(history_depth=depth, model_states=nstates,
                                       histories=sum(1 for p in plan if p[1] == 0)))
