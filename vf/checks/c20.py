"""C20 - executor lifecycles leak no parent-side resources (simulation part: fd table,
threads, children, named semaphores of the parent at the end of every explored lifecycle)."""
from ..sim import programs as PG, simcheck

ORACLE = "vf.sim.props:c20"


KEYED = ("submit", "result", "cancel", "release", "callback", "map", "submit_expect")


def _acct(prog):
    """The lifecycle once, release + settle + account; then the same lifecycle again and a
    second account: the counts must not grow (non-accumulation)."""
    p = dict(prog)
    p["name"] = prog["name"] + "+x2acct"
    th = [list(t) for t in prog["threads"]]
    tail = [["del"], ["settle"], ["account"]]
    second = [[op[0], op[1] + "2"] + list(op[2:]) if op[0] in KEYED else list(op)
              for op in th[0]]
    th[0] = th[0] + tail + second + tail
    p["threads"] = th[:1]
    return p


def plan(tier):
    return [(_acct(p), b, o) for (p, b, o) in _plan(tier)]


def _plan(tier):
    A = dict(kinds=("P", "T", "K"))
    PT = dict(kinds=("P", "T"))
    pl = [(PG.basic(2, None), 1, A), (PG.basic(2, 0.05), 1, PT), (PG.lifecycle_twice(2, None), 1, PT),
          (PG.lifecycle_twice(1, 0.05), 1, A), (PG.reusable_resize(2, 3, None), 1, PT),
          (PG.reusable_resize(2, 1, 0.05), 1, PT), (PG.reusable_replace(None, False), 1, PT),
          (PG.reusable_replace(0.05, True), 1, PT), (PG.die_then_submit(2), 1, PT),
          (PG.forced(2, False, 2), 1, PT),
          (PG.one_task(1, 0.05, "nowait"), 1, PT), (PG.one_task(1, None, "del"), 1, PT),
          (PG.failing("bad_arg", 1), 1, PT), (PG.idle_then_submit(2, 0.05), 1, PT),
          (PG.forced_full_pipe(1, 1024, 3, 700, False), 1, PT),
          (PG.forced_full_pipe(1, 1024, 3, 700, True), 1, PT)]
    # crash lifecycles for unusual causes of death (a real-time signal, a signal number without
    # a name, exit statuses): whatever the diagnostics say, the lifecycle leaves nothing behind
    pl += [(PG.die_code(code, 2), 0, PT) for code in (-35, -63, -64, -34, -1, -11, 255, 1, 0)]
    pl += [(PG.die_unwatched(code, 2), 0, PT) for code in (-35, -63, -9, 3)]
    pl += [(PG.die_unwatched(-35, 1), 1, PT)]
    if tier == "thorough":
        pl += [(PG.lifecycle_twice(2, None), 2, dict(kinds=("P",))), (PG.basic(2, 0.05), 2, PT),
               (PG.reusable_replace(None, False), 2, dict(kinds=("P",)))]
    return pl


def main(tier):
    from ..real import treereal
    r = treereal.run_c20(tier)
    viols = [dict(signature=sig, msg=msg, case=case) for sig, msg, case in r["violations"]]
    return simcheck.run("C20", tier, plan(tier), ORACLE, extra_violations=viols,
                        extra_cov=dict(real_lifecycles=dict(
                            sequences=r["cases"], samples=r["samples"],
                            rule="every single lifecycle kind and (quick: a fifth of / thorough: "
                                 "all) ordered pairs of 7 kinds (plain clean/killed/broken/"
                                 "timed-out, reusable clean/resized/broken-and-replaced) run "
                                 "once and three times in one real process; /proc/self/fd, "
                                 "threads, children incl. zombies and /dev/shm semaphores must "
                                 "not grow")))
