"""C03 - right result to the right future, at-most-once execution, map == builtin map."""
import itertools

from ..sim import programs as PG, simcheck, tasks as T

ORACLE = "vf.sim.props:c03"


def plan(tier):
    PT = dict(kinds=("P", "T"))
    pl = [(PG.cancel_prog(1), 1, PT), (PG.cancel_two_threads(1), 1, PT),
          (PG.cancel_two_threads(1), 1, dict(kinds=("P", "T"), starve="parent:user")),
          (PG.cancel_two_threads(2), 1, dict(kinds=("P",), starve="parent:user")),
          (PG.two_submitters(2, 0.05), 1, PT), (PG.two_submitters(1, None), 1, PT),
          (PG.resize_with_map(1, 2, 0.05), 1, PT), (PG.bursts(2, 0.05), 1, PT),
          (PG.cancel_run(6, 1), 1, PT), (PG.cancel_run(3, 2), 1, PT),
          (PG.submit_cancel_shutdown(1, True), 1, PT), (PG.cancel_prog(1), 2, dict(kinds=("P",), p_scope="parent:"))]
    combos = [(c, l) for c in (1, 2, 3, 4) for l in itertools.product(range(5), repeat=2)]
    combos += [(c, (n,)) for c in (1, 2, 3) for n in (0, 1, 3, 5)] + [(2, (3, 4, 2)), (1, (2, 2, 2))]
    deep = {(2, (3, 4)), (3, (4, 4)), (1, (2, 3)), (4, (4, 1)), (2, (5,)), (3, (3,)), (2, (3, 4, 2)),
            (2, (0, 3))}
    for c, l in combos:
        d = 1 if (c, l) in deep or tier == "thorough" else 0
        pl.append((PG.map_prog(c, l, 2, 0.05), d, PT))
    # the iterables need not be independent lists: one-shot iterators, the same iterator given
    # several times, generators that watch each other
    for shape in ("iter", "alias", "dep"):
        for c in (1, 2, 3, 5):
            for l in ((4, 4), (5, 3), (2, 5), (3, 3, 3), (0, 2), (1, 1)):
                pl.append((PG.map_prog(c, l, 2, None, shape=shape), 0, PT))
    # the values themselves: functions returning (empty) lists, nested lists, None, strings,
    # tuples, dicts - alone in their chunk, in full chunks, in the left-over chunk
    for fn in T.VALUE_FNS:
        for c, n in ((1, 1), (1, 3), (2, 3), (3, 4), (2, 2), (4, 1)):
            pl.append((PG.map_prog(c, (n,), 2, None, fn=fn), 0, PT))
    for kind in ("reusable",):
        for fn in ("vlist", "vnest", "vnone"):
            pl.append((PG.map_prog(1, (2,), 2, None, kind=kind, fn=fn), 0, PT))
    # the lazy result iterator consumed only partly, then dropped (the rest is cancelled)
    for c, l, take in ((1, (4,), 2), (2, (5,), 3), (2, (4, 4), 1), (3, (5,), 0), (1, (3,), 3)):
        pl.append((PG.map_partial(c, l, take), 1 if (c, take) in ((2, 3), (1, 2)) else 0, PT))
    if tier == "thorough":
        pl += [(PG.cancel_prog(1), 2, PT), (PG.cancel_two_threads(1), 2, dict(kinds=("P",)))]
    # source-line granularity (one preemption at any line of loky run by a parent thread)
    pl += simcheck.line_plan([PG.cancel_two_threads(1), PG.two_submitters(1, None)])
    if tier == "thorough":
        pl += simcheck.line_plan([PG.cancel_prog(1), PG.cancel_run(3, 2), PG.resize_with_map(1, 2, 0.05), PG.bursts(2, 0.05), PG.map_prog(2, (3, 4), 2, 0.05), PG.submit_cancel_shutdown(1, True)])
    return pl


def main(tier):
    return simcheck.run("C03", tier, plan(tier), ORACLE)
