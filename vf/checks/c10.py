"""C10 - resizing preserves submitted work and surviving workers, and terminates."""
from ..sim import programs as PG, simcheck

ORACLE = "vf.sim.props:c10"


def plan(tier):
    A = dict(kinds=("P", "T", "K"))
    PT = dict(kinds=("P", "T"))
    pl = []
    for old in (1, 2, 3):
        for new in (1, 2, 3):
            if old != new:
                pl.append((PG.reusable_resize(old, new, None), 1, A if (old, new) in ((2, 3), (3, 1), (2, 1)) else PT))
    pl += [(PG.reusable_resize(2, 3, 0.05), 1, A), (PG.reusable_resize(2, 1, 0.05), 1, A),
           (PG.resize_inflight(2, 3, None, 1), 1, PT), (PG.resize_inflight(2, 1, None, 2), 1, PT),
           (PG.resize_inflight(1, 2, 0.05, 1), 1, PT), (PG.reusable_resize(2, 2, None), 1, PT)]
    EM = dict(kinds=("K",), starve="eager:parent:manager")
    pl += [(PG.reusable_resize(2, 3, None), 1, EM), (PG.reusable_resize(1, 3, 0.05), 1, EM),
           (PG.reusable_resize(3, 1, None), 1, EM)]
    # idle timeouts of several workers inside the resize itself
    # policy: every idle timer expires inside _resize (timeout ~ 0 relative to the call)
    Z = dict(kinds=("P",), zero_when="_resize", p_scope="worker")
    pl += [(PG.reusable_resize(2, 1, 0.05), 1, Z), (PG.reusable_resize(3, 2, 0.05), 1, Z),
           (PG.reusable_resize(3, 1, 0.05), 1, Z), (PG.reusable_resize(2, 3, 0.05), 1, Z)]
    # a worker dies while the resize is adding workers, and the manager examines the deaths
    # while the user thread is still inserting (eager manager, one kill + one preemption)
    KP = dict(kinds=("P", "K"), starve="eager:parent:manager", kill_when="in:_adjust_process_count",
              p_when="get_exitcodes_terminated_worker")
    pl += [(PG.reusable_resize(2, 3, None), 2, KP), (PG.reusable_resize(1, 3, None), 2, KP)]
    pl += [(PG.cancel_run_then_resize(8, 1, 2), 1, PT), (PG.cancel_run_then_resize(6, 2, 1), 0, PT)]
    pl += [(PG.resize_vs_callback_submit(1, 3), 1, PT), (PG.resize_vs_callback_submit(2, 1), 1, PT)]
    # idle timers firing at the instant "spawn" of a growing resize: refused (lock held), the
    # worker stays; judged a fifth of a period after the call returned
    TS = dict(kinds=("T",), t_when="_adjust_process_count", t_scope="worker")
    pl += [(PG.grow_then_rest(2, 4), 1, TS), (PG.grow_then_rest(1, 3), 1, TS), (PG.grow_then_rest(2, 3), 1, TS)]
    if tier == "thorough":
        pl += [(PG.grow_then_rest(2, 4), 2, TS)]
        TR = dict(kinds=("T",), t_when="_resize", t_scope="worker", t_cur="parent:main")
        pl += [(PG.reusable_resize(2, 1, 0.05), 2, TR),
               (PG.reusable_resize(3, 2, 0.05), 2, Z)]
        pl += [(PG.reusable_resize(2, 3, 0.05), 2, dict(kinds=("T", "K"))),
               (PG.reusable_resize(2, 1, None), 2, dict(kinds=("P", "K"))),
               (PG.resize_inflight(2, 1, None, 1), 2, dict(kinds=("P",)))]
    # source-line granularity (one preemption at any line of loky run by a parent thread)
    pl += simcheck.line_plan([PG.reusable_resize(2, 3, None), PG.resize_inflight(2, 1, None, 2)])
    if tier == "thorough":
        pl += simcheck.line_plan([p for p, _, _ in pl])
    return pl


def main(tier):
    return simcheck.run("C10", tier, plan(tier), ORACLE)
