"""Complete (not deviation-bounded) stateful exploration of small thread harnesses over the
real loky.backend.synchronize primitives on a faithful SemLock model.

DFS over scheduler choices with a visited set keyed on: every kernel semaphore value, every
SemLock object's (count, owner), each thread's status/pending operation and its full stack of
(function, bytecode offset, scalar locals) inside synchronize.py and the harness, and the
harness' result variables.  These harness threads have no other state, so two executions that
reach the same key have the same futures: pruning on it is sound."""
import _thread
import builtins
import itertools
import sys
import threading as _rt
import types

TIMEOUT = object()


class Abort(BaseException):
    pass


class T:
    def __init__(self, S, fn, name):
        self.S = S
        self.fn = fn
        self.name = name
        self.id = len(S.threads)
        S.threads.append(self)
        self.baton = _thread.allocate_lock()
        self.baton.acquire()
        self.state = "ready"
        self.pred = None
        self.timed = False
        self.fire = False
        self.desc = None
        self.deadline = None
        self.real = _rt.Thread(target=self.boot, daemon=True)
        self.real.start()

    def boot(self):
        self.baton.acquire()
        S = self.S
        try:
            if S.aborting:
                raise Abort()
            self.fn()
        except Abort:
            pass
        except BaseException as e:
            S.errors.append((self.name, type(e).__name__, str(e)[:200]))
        finally:
            self.state = "done"
            S.thread_done(self)


class Sched:
    def __init__(self, prefix, visited, stack, key_files):
        self.threads = []
        self.prefix = prefix
        self.choices = []
        self.visited = visited
        self.stack = stack
        self.aborting = False
        self.errors = []
        self.cur = None
        self.done = _thread.allocate_lock()
        self.done.acquire()
        self.verdict = None
        self.sems = {}
        self.objs = []
        self.out = {}
        self.ntrans = 0
        self.key_files = key_files
        self.blocked = []
        self.now = 0.0        # virtual clock: a timed wait that fires moves it to its deadline

    def alts(self, me):
        a = []
        for t in self.threads:
            if t.state == "ready":
                a.append((t, "run"))
            elif t.state == "blocked":
                if t.pred():
                    a.append((t, "run"))
                if t.timed:
                    a.append((t, "timeout"))
        a.sort(key=lambda x: (0 if (x[0] is me and x[1] == "run") else 1, x[0].id, x[1]))
        return a

    def key(self):
        fr = sys._current_frames()
        k = []
        for t in self.threads:
            st = []
            f = fr.get(t.real.ident)
            while f is not None:
                fn = f.f_code.co_filename
                if fn.endswith("synchronize.py") or (fn in self.key_files
                                                    and f.f_code.co_name.startswith("h_")):
                    loc = tuple(sorted((n, v) for n, v in f.f_locals.items()
                                       if isinstance(v, (int, bool, type(None), float))))
                    st.append((f.f_code.co_name, f.f_lasti, loc))
                f = f.f_back
            k.append((t.state, t.desc, t.timed, tuple(st)))
        sem = tuple(sorted((n, s.value) for n, s in self.sems.items()))
        objs = tuple((o.name, o.oid, o.count, o.last) for o in self.objs)
        return (tuple(k), sem, objs, tuple(sorted((a, str(b)) for a, b in self.out.items())),
                round(self.now, 6))

    def pick(self, me):
        a = self.alts(me)
        if not a:
            return None
        i = len(self.choices)
        if i < len(self.prefix):
            c = self.prefix[i]
            if c >= len(a):
                raise RuntimeError("replay divergence in the C14 explorer")
        else:
            k = self.key()
            if k in self.visited:
                return "prune"
            self.visited.add(k)
            for alt in range(1, len(a)):
                self.stack.append(self.choices + [alt])
            c = 0
        self.choices.append(c)
        self.ntrans += 1
        return a[c]

    def _end(self, me, verdict):
        self.verdict = verdict
        self.blocked = [(t.name, t.desc) for t in self.threads if t.state != "done"]
        self.aborting = True
        if me is not None and me.state != "done":
            raise Abort()
        return self._abort_next()

    def switch(self, me):
        ch = self.pick(me)
        if ch is None:
            return self._end(me, "deadlock")
        if ch == "prune":
            return self._end(me, "pruned")
        t, how = ch
        if how == "timeout":
            t.fire = True
            if t.deadline is not None:
                self.now = max(self.now, t.deadline)
        t.state = "ready"
        if t is me:
            return
        self.cur = t
        t.baton.release()
        if me is not None and me.state != "done":
            me.baton.acquire()
            self.cur = me

    def point(self, desc, pred=None, timed=False, timeout=None):
        me = self.cur
        me.deadline = (self.now + max(0.0, timeout)) if (timed and timeout is not None) else None
        if self.aborting:
            raise Abort()
        me.desc = desc
        me.fire = False
        if pred is None:
            me.state = "ready"
            me.timed = False
        else:
            me.state = "blocked"
            me.pred = pred
            me.timed = timed
        self.switch(me)
        if self.aborting:
            raise Abort()
        me.state = "ready"
        me.pred = None
        me.timed = False
        if me.fire:
            me.fire = False
            return TIMEOUT

    def thread_done(self, me):
        if self.aborting:
            return self._abort_next()
        if all(t.state == "done" for t in self.threads):
            self.verdict = "ok"
            self.done.release()
            return
        try:
            self.switch(None)
        except Abort:
            self._abort_next()

    def _abort_next(self):
        for t in self.threads:
            if t.state != "done":
                self.cur = t
                t.baton.release()
                return
        self.done.release()

    def run(self, fns):
        for name, fn in fns:
            T(self, fn, name)
        ch = self.pick(None)
        if ch == "prune" or ch is None:
            self.verdict = "pruned"
            self.aborting = True
            self._abort_next()
        else:
            t, how = ch
            self.cur = t
            t.baton.release()
        self.done.acquire()
        for t in self.threads:
            t.real.join(30)
        return self.verdict


S = None


class KSem:
    def __init__(self, v):
        self.value = v


class SimSemLock:
    """mirrors Modules/_multiprocessing/semaphore.c (POSIX branch)"""
    SEM_VALUE_MAX = 2 ** 31 - 1

    def __init__(self, kind, value, maxvalue, name, unlink):
        S.sems[name] = KSem(value)
        self._init(kind, maxvalue, name)

    def _init(self, kind, maxvalue, name):
        self.kind = kind
        self.maxvalue = maxvalue
        self.name = name
        self.count = 0
        self.last = None
        self.handle = 1
        self.oid = len(S.objs)
        S.objs.append(self)

    @classmethod
    def _rebuild(cls, handle, kind, maxvalue, name):
        o = cls.__new__(cls)
        o._init(kind, maxvalue, name)
        return o

    def _mine(self):
        return self.count > 0 and self.last == S.cur.id

    def acquire(self, block=True, timeout=None):
        if S.aborting:
            raise Abort()
        k = S.sems[self.name]
        if self.kind == 0 and self._mine():
            self.count += 1
            return True
        if not block:
            S.point(("try", self.name))
            if k.value > 0:
                k.value -= 1
                self.count += 1
                self.last = S.cur.id
                return True
            return False
        r = S.point(("acq", self.name), lambda: k.value > 0, timed=timeout is not None,
                    timeout=timeout)
        if r is TIMEOUT:
            S.out["fired:" + S.cur.name] = S.out.get("fired:" + S.cur.name, 0) + 1
            return False
        k.value -= 1
        self.count += 1
        self.last = S.cur.id
        return True

    def release(self):
        if S.aborting:
            raise Abort()
        k = S.sems[self.name]
        if self.kind == 0:
            if not self._mine():
                raise AssertionError("attempt to release recursive lock not owned by thread")
            if self.count > 1:
                self.count -= 1
                return
        S.point(("rel", self.name))
        if self.kind != 0 and k.value >= self.maxvalue:
            raise ValueError("semaphore or lock released too many times")
        k.value += 1
        self.count -= 1

    def __enter__(self):
        return self.acquire()

    def __exit__(self, *a):
        self.release()

    def _count(self):
        return self.count

    def _is_mine(self):
        return self._mine()

    def _get_value(self):
        return S.sems[self.name].value

    def _is_zero(self):
        return S.sems[self.name].value == 0

    def _after_fork(self):
        pass


_code = {}


def load_sync(repo):
    path = repo + "/loky/backend/synchronize.py"
    if path not in _code:
        _code[path] = compile(open(path).read(), path, "exec")
    m = types.ModuleType("loky.backend.synchronize")
    m.__package__ = "loky.backend"
    mpm = types.ModuleType("_multiprocessing")
    mpm.SemLock = SimSemLock
    mpm.sem_unlink = lambda n: None
    rtm = types.SimpleNamespace(register=lambda *a: None, unregister=lambda *a: None)
    names = itertools.count()

    def imp(name, g=None, l=None, fromlist=(), level=0):
        if name == "_multiprocessing":
            return mpm
        if level == 1 and not name:
            return types.SimpleNamespace(resource_tracker=rtm)
        return __import__(name, g, l, fromlist, level)
    b = dict(builtins.__dict__)
    b["__import__"] = imp
    m.__dict__["__builtins__"] = b
    exec(_code[path], m.__dict__)
    m.SemLock._make_name = staticmethod(lambda: f"/s{next(names)}")
    m._time = lambda: S.now          # the clock of wait_for is the explorer's virtual clock
    # the time source of wait_for is irrelevant here (timeouts are scheduler alternatives)
    return m


class CloneError(Exception):
    """The object could not be rebuilt from its own pickled state."""


def clone_for_process(syn, obj):
    """What a loky child gets: the object rebuilt from its pickled state (ownership counters of
    every SemLock start afresh, kernel semaphores are shared by name). Goes through the real
    ``__getstate__`` / ``__setstate__`` pair of each class (``assert_spawning`` answered "yes"),
    so that what is carried in the pickle, and what is not, is the implementation's decision."""
    kinds = (syn.SemLock, syn.Condition, syn.Event)

    def walk(x):
        if isinstance(x, kinds):
            return cp(x)
        if isinstance(x, tuple):
            return tuple(walk(y) for y in x)
        if isinstance(x, list):
            return [walk(y) for y in x]
        if isinstance(x, dict):
            return {k: walk(y) for k, y in x.items()}
        return x

    def cp(o):
        n = o.__class__.__new__(o.__class__)
        if hasattr(o.__class__, "__getstate__") and o.__class__.__getstate__ is not object.__getstate__:
            state = walk(o.__getstate__())
        else:
            state = walk(dict(o.__dict__))
        if hasattr(n, "__setstate__"):
            n.__setstate__(state)
        else:
            n.__dict__.update(state)
        return n

    saved = syn.__dict__.get("assert_spawning")
    syn.assert_spawning = lambda o: None
    try:
        return cp(obj)
    except Exception as e:
        raise CloneError(f"{type(obj).__name__}: {type(e).__name__}: {e}") from e
    finally:
        syn.assert_spawning = saved


def explore(build, repo, key_files, maxexec=10 ** 7):
    """build(S, syn) -> (list of (name, fn), terminal_oracle(S, verdict) -> list of str).
    Explores every interleaving (and every firing instant of timed waits)."""
    global S
    visited = set()
    stack = [[]]
    n = trans = 0
    outcomes = {}
    violations = []
    while stack and n < maxexec:
        prefix = stack.pop()
        S = Sched(prefix, visited, stack, key_files)
        syn = load_sync(repo)
        try:
            fns, oracle = build(S, syn)
        except CloneError as e:
            # the harness could not even be set up: a copy pickled to a child does not rebuild
            violations.append(("copy-rebuild-failed", str(e), []))
            n += 1
            break
        v = S.run(fns)
        n += 1
        trans += S.ntrans
        if v == "pruned":
            continue
        for e in S.errors:
            violations.append((f"exception:{e[1]}", f"thread {e[0]} raised {e[1]}: {e[2]}", list(S.choices)))
        for msg in oracle(S, v):
            violations.append((msg[0], msg[1], list(S.choices)))
        key = (v, tuple(sorted((k, str(val)) for k, val in S.out.items())),
               tuple(b[0] for b in S.blocked))
        outcomes[key] = outcomes.get(key, 0) + 1
    S = None
    return dict(executions=n, states=len(visited), transitions=trans, outcomes=outcomes,
                violations=violations, complete=not stack)
