import time, sys, threading, os, signal, faulthandler
from loky import get_reusable_executor
from loky import process_executor as pe
def ident(x): return x
if __name__ == "__main__":
    e = get_reusable_executor(max_workers=2, timeout=100)
    assert e.submit(ident, 1).result() == 1
    # force the schedule "manager is slow to react to the death" with a delay in terminate_broken
    orig_tb = pe._ExecutorManagerThread.terminate_broken
    def slow_tb(self, bpe):
        time.sleep(2.0); return orig_tb(self, bpe)
    pe._ExecutorManagerThread.terminate_broken = slow_tb
    victim = list(e._processes)[0]
    os.kill(victim, signal.SIGKILL); time.sleep(0.2)   # dead, manager sleeping in slow_tb
    done = []
    def resize():
        e2 = get_reusable_executor(max_workers=3, timeout=100); done.append(e2)
    t = threading.Thread(target=resize, daemon=True); t.start()
    t.join(12)
    print("get_reusable_executor returned:", bool(done), " broken flag:", type(e._flags.broken).__name__, flush=True)
    if not done:
        fr = sys._current_frames()[t.ident]
        import traceback; print("".join(traceback.format_stack(fr)[-3:]))
    for p in list(e._processes):
        try: os.kill(p, 9)
        except Exception: pass
    os._exit(0)
