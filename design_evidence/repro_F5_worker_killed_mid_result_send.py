# Needs a scratch copy of loky on PYTHONPATH in which SimpleQueue.put (loky/backend/queues.py), holding
# the write lock, writes the 4-byte header and half of the payload and then SIGKILLs the worker:
#             with self._wlock:
#     +           if os.environ.get('LOKY_F5') and len(obj) > 1000:
#     +               import struct, signal as _s
#     +               os.write(self._writer.fileno(), struct.pack('!i', len(obj)) + bytes(obj[:len(obj)//2]))
#     +               os.kill(os.getpid(), _s.SIGKILL)
#                 self._writer.send_bytes(obj)
# (this is what happens when a worker is killed while a result larger than the free pipe space is in flight)
import time, sys, threading, os
os.environ['LOKY_F5'] = '1'
from loky import ProcessPoolExecutor
def big(n): return b"x" * n
def ident(x): return x
if __name__ == "__main__":
    e = ProcessPoolExecutor(2, timeout=None)
    f = e.submit(big, 5000)
    g = e.submit(ident, 1)
    try: print("f:", len(f.result(timeout=8)))
    except BaseException as ex: print("f: EXC", type(ex).__name__, flush=True)
    print("g done:", g.done(), " broken:", e._flags.broken, " manager alive:", e._executor_manager_thread.is_alive(), flush=True)
    import faulthandler; faulthandler.dump_traceback()
    for p in list(e._processes):
        try: os.kill(p, 9)
        except Exception: pass
    os._exit(0)
