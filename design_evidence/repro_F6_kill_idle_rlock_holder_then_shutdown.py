import time, sys, threading, os, signal, faulthandler
import multiprocessing as mp, multiprocessing.util
mp.util.log_to_stderr(5)
from loky import ProcessPoolExecutor
def ident(x): return x
if __name__ == "__main__":
    which = int(sys.argv[1])
    e = ProcessPoolExecutor(2, timeout=None)
    assert e.submit(ident, 1).result() == 1
    time.sleep(0.5)
    procs = dict(e._processes)
    pids = list(procs)
    for p in pids:
        print(p, open(f"/proc/{p}/wchan").read(), open(f"/proc/{p}/stat").read().split()[2], flush=True)
    t = threading.Thread(target=lambda: (e.shutdown(wait=True), print("shutdown returned", flush=True)), daemon=True)
    victim=[p for p in pids if ('pipe_read' in open(f'/proc/{p}/wchan').read()) == (which==0)][0]; print('victim', victim, flush=True); os.kill(victim, signal.SIGKILL)
    t.start()
    t.join(10)
    print("alive after 10s:", t.is_alive(), "broken:", e._flags.broken, {p: pr.exitcode for p, pr in procs.items()}, flush=True)
    for p in pids:
        try: os.kill(p, 9)
        except Exception: pass
    os._exit(0)
