import time, sys, threading
from loky import ProcessPoolExecutor
class Slow:
    def __init__(self, d): self.d=d
    def __reduce__(self):
        time.sleep(self.d); return (int, (0,))
def ident(x): return x
if __name__ == "__main__":
    mode = sys.argv[1]
    e = ProcessPoolExecutor(1, timeout=0.5)
    assert e.submit(ident, 1).result() == 1
    # worker idle now; will timeout at +0.5s. submit a slowly-pickling arg so worker times out while item is "running"
    time.sleep(0.2)
    f = e.submit(ident, Slow(1.0))
    if mode == "nowait":
        e.shutdown(wait=False)
    elif mode == "del":
        del e
    try:
        print("result", f.result(timeout=15))
    except BaseException as ex:
        print("EXC", type(ex).__name__, ex)
    print([t.name for t in threading.enumerate()])
