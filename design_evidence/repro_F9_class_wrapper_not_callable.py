import pickle
from loky import wrap_non_picklable_objects
from loky.cloudpickle_wrapper import CloudpickledObjectWrapper
class A:
    def __init__(self, a=1, k=2): self.a=a; self.k=k
    def __call__(self, x): return x+self.a
    def m(self): return self.k
W = wrap_non_picklable_objects(A)
w = W(3, k=4)
print("callable(A(3))", callable(A(3)), "callable(wrapper instance)", callable(w))
try: print(w(1))
except Exception as e: print("call EXC", type(e).__name__, e)
w2 = pickle.loads(pickle.dumps(w))
print(type(w2).__name__, callable(w2), w2(1), w2.m())
W0 = wrap_non_picklable_objects(A, keep_wrapper=False)
w0 = W0(3)
x = pickle.loads(pickle.dumps(w0)); print(type(x).__name__)
# instance wrapping
wi = wrap_non_picklable_objects(A(5))
print(type(wi).__name__, callable(wi), wi(1), isinstance(pickle.loads(pickle.dumps(wi)), CloudpickledObjectWrapper))
# wrapper of wrapper
f = lambda x: x*2
ww = wrap_non_picklable_objects(wrap_non_picklable_objects(f))
r = pickle.loads(pickle.dumps(ww)); print(type(r).__name__, type(r._obj).__name__, r(3))
ww2 = wrap_non_picklable_objects(wrap_non_picklable_objects(f, keep_wrapper=False), keep_wrapper=True)
r = pickle.loads(pickle.dumps(ww2)); print(type(r).__name__, type(r._obj).__name__, r(3))
