import time, sys, threading, os, signal
from loky import ProcessPoolExecutor
class SlowBad:
    def __reduce__(self):
        time.sleep(1.5); raise ValueError("cannot pickle")
def ident(x): return x
if __name__ == "__main__":
    e = ProcessPoolExecutor(2, timeout=None)
    assert e.submit(ident, 1).result() == 1
    fA = e.submit(time.sleep, 30)
    fA.add_done_callback(lambda f: time.sleep(2.5))     # slow user callback, runs in the manager thread
    time.sleep(0.3)
    fB = e.submit(ident, SlowBad())                      # feeder thread is busy pickling this for 1.5 s
    time.sleep(0.3)
    pids = list(e._processes)
    os.kill(pids[0], signal.SIGKILL)                     # pool breaks while the feeder is still pickling
    time.sleep(5)
    print("fA:", type(fA.exception(timeout=1)).__name__, " fB:", type(fB.exception(timeout=1)).__name__, flush=True)
    print("threads:", [t.name for t in threading.enumerate()], flush=True)
    alive = []
    for p in pids:
        try: os.kill(p, 0); alive.append(p)
        except ProcessLookupError: pass
    import psutil
    print("worker pids still existing (incl. zombies):", [(p, psutil.Process(p).status()) for p in alive], flush=True)
    for p in pids:
        try: os.kill(p, 9)
        except Exception: pass
    os._exit(0)
