# Needs a scratch copy of loky (outside /repo and /verif) on PYTHONPATH in which the worker dies
# at the crash point, i.e. in loky/process_executor.py (_process_worker):
#
#             if processes_management_lock.acquire(block=False):
#     +           if os.environ.get('LOKY_F4'):
#     +               import signal as _s; os.kill(os.getpid(), _s.SIGKILL)
#                 processes_management_lock.release()
#
# Observed: pool flagged TerminatedWorkerError, manager thread blocked for ever in
# shutdown_workers() on `with self.processes_management_lock`, shutdown(wait=True) never returns.
import time, sys, threading, os
os.environ['LOKY_F4'] = '1'
import loky; print("loky from", loky.__file__, flush=True)
from loky import ProcessPoolExecutor
def ident(x): return x
if __name__ == "__main__":
    e = ProcessPoolExecutor(1, timeout=0.3)
    assert e.submit(ident, 1).result() == 1
    time.sleep(1.5)       # the worker times out, takes the management lock and dies holding it
    print("broken:", type(e._flags.broken).__name__, "manager alive:", e._executor_manager_thread.is_alive(), flush=True)
    t = threading.Thread(target=lambda: (e.shutdown(wait=True), print("shutdown returned", flush=True)), daemon=True)
    t.start(); t.join(8)
    print("shutdown(wait=True) still blocked after 8 s:", t.is_alive(), flush=True)
    if t.is_alive():
        import faulthandler; faulthandler.dump_traceback()
    os._exit(0)
