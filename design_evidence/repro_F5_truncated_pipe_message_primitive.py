import multiprocessing as mp, os, struct, signal, time
from multiprocessing.connection import wait
r, w = mp.Pipe(duplex=False)
pid = os.fork()
if pid == 0:
    # child: write a header announcing 100000 bytes, then only 10 bytes, then die
    os.write(w.fileno(), struct.pack("!i", 100000) + b"x"*10)
    os._exit(0)
os.waitpid(pid, 0)
print("ready:", wait([r], 1) != [])
signal.alarm(3)
try:
    r.recv_bytes()
    print("recv returned")
except BaseException as e:
    print("EXC", type(e))
