"""Files confirmed seeded defects under /verif/seeded/<id>/ (patch.diff, demo, meta.json)."""
import json, os, shutil, subprocess, sys
ROOT = os.path.dirname(os.path.dirname(os.path.abspath(__file__)))
SEEDS = {
 "C01a": dict(property="C01", needs="a worker crash + a submit() landing between the failing of the pending futures and flag_as_broken (resubmit from a done-callback, or another thread woken by the failed future)", same_patch_as="C02a"),
 "C02a": dict(property="C02", needs="terminate_broken flags the pool broken only after failing the pending futures: a submit() in that window is accepted and its future never resolves (one preemption of the manager thread after a worker death)"),
 "C03a": dict(property="C03", needs="cancel() of a future that is still in the work-id backlog (more tasks submitted than workers + queue slots): the cancelled task's body still runs"),
 "C04a": dict(property="C04", needs="the feeder thread's pickling-error path must run between call_queue.put() and running_work_items += [id] in the manager thread (one preemption): feeder dies with ValueError, futures hang"),
 "C05a": dict(property="C05", needs="three threads: a submit() past its shutdown check while another thread calls shutdown() (flag set outside the lock) and the manager wakes on a result: the accepted task is dropped (two preemptions, the submitting thread starved meanwhile)"),
 "C06a": dict(property="C06", needs="forced shutdown arriving on an executor already flagged as shutting down (shutdown(wait=False) first, or escalation from a second thread): kill_workers is not recorded"),
 "C07a": dict(property="C07", needs="single remaining worker times out exactly while a submit lands after the manager's last dispatch pass: no re-spawn, task lost"),
 "C08a": dict(property="C08", needs="partially drained pool (some workers idled out while one is busy), then >= max_workers long tasks: submit no longer tops the pool up"),
 "C09a": dict(property="C09", needs="shutdown(wait=False) with work pending, then get_reusable_executor: the previous instance is not joined before a fresh one is returned"),
 "C10a": dict(property="C10", needs="growing resize + a freshly spawned worker dies before the manager re-reads its sentinels (manager woken before the spawn): _resize spins for ever"),
 "C11a": dict(property="C11", needs="MAYBE_UNLINK for a name the tracker does not know (defaultdict): phantom count -1 corrupts later counts and the end-of-life sweep"),
 "C12a": dict(property="C12", needs="UNREGISTER/MAYBE_UNLINK of an unknown name (e.g. after a tracker relaunch): KeyError escapes the narrowed handler, the tracker runs its end-of-life cleanup while the tree is alive"),
 "C14a": dict(property="C14", needs="notifier takes the lock between the waiter's lock release and its _sleeping_count.release(): lost wakeup"),
 "C15a": dict(property="C15", needs="plain 'pickle' back-end: loky's and the user's reducers are written into copyreg.dispatch_table (dropped .copy())"),
 "C16a": dict(property="C16", needs="non-callable object + keep_wrapper=True: the flag is lost in the non-callable branch, visible on the 1st (instances) or 2nd (class-wrapper instances) round trip"),
 "C17a": dict(property="C17", needs="fractional cgroup quota > 1 CPU that is the tightest limit: floor instead of ceil"),
 "C18a": dict(property="C18", needs="initializer configured + shutdown(wait=False) with work pending + a worker leaving by itself (idle timeout / memory leak): the re-spawned worker runs tasks without the initializer"),
 "C19a": dict(property="C19", needs="LOKY_MAX_DEPTH <= 0 (unlimited) + nested executor with the fork start method at depth >= 1: no LokyRecursionError"),
 "C20a": dict(property="C20", needs="broken executor: call queue never closed in the broken path, one feeder thread + 2 fds + 3 semaphores leak per broken lifecycle"),
 "C13a": dict(property="C13", needs="the owning process dies between the tracker UNREGISTER and sem_unlink inside SemLock._cleanup (order swapped): nobody is left to unlink the name"),
 "C01b": dict(property="C01", needs="a run of consecutive cancelled backlog futures longer than the number of events the manager still receives: `return` instead of `continue` stops the dispatch, a later live future is never sent"),
 "C02b": dict(property="C02", needs="worker crash while an unresolved future has a done-callback that re-enters the executor (submit/shutdown): shutdown_lock is held while the futures are failed, self-deadlock of the manager"),
 "C03b": dict(property="C03", needs="cancel() lands between the manager's cancelled() check and its set_running_or_notify_cancel(): cancel returns True but the task is dispatched; the result then kills the manager (InvalidStateError)"),
 "C04b": dict(property="C04", needs="unpicklable task + a done-callback that re-enters the executor: the feeder thread runs the callback while holding shutdown_lock and deadlocks"),
 "C05b": dict(property="C05", needs="more workers than free call-queue slots at shutdown (reusable executor, small cpu_count) and workers leaving during the cool-down: the cumulative sentinel count is compared with the shrinking number of live children"),
 "C06b": dict(property="C06", needs="a descendant of the worker vanishes (exits and is reaped) between the psutil listing and its kill: the hoisted try/except stops killing the remaining descendants"),
 "C07b": dict(property="C07", needs="a submit lands between the manager's reading of the pending/running counts and its pop of the timed-out worker (counts read before the pop): no re-spawn for the last worker"),
 "C08b": dict(property="C08", needs="idle worker announces its exit while another is busy; a submit tops the pool up while the manager (lock dropped) does the same: max_workers+1 workers"),
 "C09b": dict(property="C09", needs="idle timeouts of the workers land between the release of the management lock and the (now later) posting of the shrink sentinels: stale sentinels; NOT detected - the unmodified tree shows the same outcomes under the zero-timeout policy (Queue.put is asynchronous), see DESIGN 11.5b"),
 "C10b": dict(property="C10", needs="a worker's clean departure still in progress (manager in p.join()) when _resize / _adjust_process_count count self._processes: the departing worker is counted as present"),
 "C11b": dict(property="C11", needs="a leaked resource whose cleanup raises a non-OSError (name with an embedded NUL byte) followed by others in the end-of-life sweep: the sweep aborts"),
 "C12b": dict(property="C12", needs="loky_init_main start method + a main module performing a tracked operation at import time: the child imports __main__ before the inherited tracker fd is installed and starts a private tracker"),
 "C13b": dict(property="C13", needs="interpreter run with warnings as errors (-W error / PYTHONWARNINGS) + owner killed with live semaphores: the tracker's 'leaked' warning raises and the sweep never runs"),
 "C14b": dict(property="C14", needs="Event.set()/clear() lands between the waiter's wake-up (or timeout) and its re-acquisition of the event lock: wait() returns the notification status instead of the flag"),
 "C15b": dict(property="C15", needs="executor created with job_reducers and an explicitly empty result_reducers={}: the truthiness test falls back to the job reducers"),
 "C16b": dict(property="C16", needs="wrapped class whose __call__ is inherited (base class or mixin): only the class' own __dict__ is inspected, fresh instances are not callable"),
 "C17b": dict(property="C17", needs="physical-core probe yielding 0 without raising + a second cpu_count(only_physical_cores=True) call: 0 is cached before the validity check"),
 "C18b": dict(property="C18", needs="two threads reaping the same child concurrently: the loser of the waitpid race gets ECHILD and records exit status 0"),
 "C19b": dict(property="C19", needs="LOKY_MAX_DEPTH=0 (unlimited): the falsy-zero slip turns it into the default limit 10"),
 "C02c": dict(property="C02", needs="a worker killed by a real-time signal 35..63 (valid signal numbers without a signal.Signals member): the exit-code formatter raises ValueError in the manager thread before the pool is flagged broken"),
 "C03c": dict(property="C03", needs="map() with chunksize >= 2 over iterables that are not independent (the same iterator passed several times, generators watching each other): each iterable is sliced on its own instead of in lockstep"),
 "C04c": dict(property="C04", needs="an argument whose pickling raises any OSError (FileNotFoundError, PermissionError...): the feeder thread takes it for a closed pipe and returns silently"),
 "C06c": dict(property="C06", needs="forced shutdown arriving when no future is unfinished while the workers own live descendants (subprocess or nested executor left by a finished task): the kill is skipped, the graceful path orphans them"),
 "C07c": dict(property="C07", needs="the manager wakes (idle-timeout announcement of a worker) between the two swapped statements of submit(): the work id is queued before its work item is registered, KeyError kills the manager"),
 "C08c": dict(property="C08", needs="reusable executor first created small (1 worker) and later resized beyond 2*initial+1: the call queue keeps the small size computed from the first max_workers"),
 "C09c": dict(property="C09", needs="a second thread enters get_reusable_executor while another caller is creating or replacing the singleton (cold start, broken or shut-down previous instance, changed arguments): the singleton is read before the lock is taken"),
 "C10c": dict(property="C10", needs="a worker dies during the spawn step of a growing resize and the manager thread examines the exit codes (iterating the live _processes dict) while the user thread inserts the new workers"),
 "C05c": dict(property="C05", needs="a worker's idle timeout fires just before the shutdown sentinel arrives and it reaches processes_management_lock (now a blocking acquire) after the manager entered its final join holding that lock: worker and manager wait for each other"),
 "C11c": dict(property="C11", needs="a request line with a non-ASCII byte on the tracker pipe: the pipe is opened in text mode, the decode error is raised by readline() outside the per-request try and ends the tracker (early end-of-life sweep)"),
 "C12c": dict(property="C12", needs="tracker dead or not yet started and two threads of one process doing a tracked operation: the liveness probe runs outside the lock, the second thread takes the fresh fd for a dead one, closes it (orphaning a living tracker, whose clean-up runs) and launches another"),
 "C13c": dict(property="C13", needs="a SemLock creation colliding with the name of a living semaphore of the same tracker family (explicit name reused, or the retry loop drawing a taken name), then SIGKILL of the owner: the undo of the early registration erases the owner's registration"),
 "C14c": dict(property="C14", needs="two or more waiters' time-outs firing inside one notify_all() after it counted them as sleepers: only one of the unused wake-up tokens is drained, the next wait returns True at once / the next notify trips the internal assertion"),
 "C15c": dict(property="C15", needs="get_reusable_executor replacing an existing instance (changed arguments, broken, shut down) with result_reducers different from job_reducers: the recursive call drops result_reducers"),
 "C16c": dict(property="C16", needs="the same wrapper object pickled twice with a change of the wrapped object's state in between: the second send carries the bytes memoised at the first"),
 "C17c": dict(property="C17", needs="os.sched_getaffinity unusable (missing or NotImplementedError) + psutil installed + affinity mask smaller than the OS count: hasattr is tested on the psutil module instead of the Process object"),
 "C18c": dict(property="C18", needs="parent started with python -m <module> (its __main__ has a __spec__.name) under the default loky start method: the init_main_module guard no longer covers the from-name branch, every worker re-runs the parent's main"),
 "C19c": dict(property="C19", needs="a worker initializer that creates a nested executor: _CURRENT_DEPTH is assigned after the initializer ran (reverse of the F14 repair)"),
 "C20c": dict(property="C20", needs="executor lifecycle ending without a blocking shutdown (shutdown(wait=False) or dropping the last reference): the weak-keyed registry of manager threads stores a bound method of its own key, the finished thread with its queues (6 semaphores, 1 fd) lives for ever"),
 "C01c": dict(property="C01", needs="a worker terminated by a signal without a signal.Signals member (real-time signals 35..63): the exit-code formatter catches KeyError instead of ValueError, the manager thread dies before the pool is flagged broken"),
 "C03d": dict(property="C03", needs="a worker that already ran a task reaches its idle timeout while the parent holds processes_management_lock: the stale call_item (no longer deleted) is executed again after the dropped `continue`"),
 "C04d": dict(property="C04", needs="a result larger than the result pipe (multi-chunk write under the lock) while another worker sends a small result, which now skips the write lock: the small message lands inside the big one, the stream cannot be un-serialized, pool broken"),
 "C05d": dict(property="C05", needs="submit + cancel + shutdown issued while the manager thread is between wait() returning and thread_wakeup.clear(): both wake-ups are swallowed, only the cancelled item remains, the manager blocks in wait() for ever (the second add_call_item_to_queue of the F18 repair removed)"),
 "C01d": dict(property="C01", needs="shutdown(kill_workers=True) with pending futures one of which has a done-callback re-entering the executor (retry by submit, shutdown): the manager now fails the futures while holding the non-reentrant shutdown_lock and deadlocks on itself"),
 "C06d": dict(property="C06", needs="psutil not importable + a process of the worker tree that ignores or handles SIGTERM: the pgrep path sends SIGTERM instead of SIGKILL (getattr fallback swapped)"),
 "C07d": dict(property="C07", needs="a worker left on idle timeout, the manager is collecting the sentinels of the live _processes dict (no list copy) when a submit re-spawns the missing worker: dictionary changed size during iteration kills the manager"),
 "C08d": dict(property="C08", needs="a shrink of a busy reusable executor interrupted inside _wait_job_completion (UserWarning turned into an error, KeyboardInterrupt): _max_workers is already lowered, the next identical request is a no-op and the pool keeps its old size"),
 "C09d": dict(property="C09", needs="a growing get_reusable_executor racing with a job whose done-callback calls executor.submit (or calling get_reusable_executor from the callback): the work item now stays in pending_work_items while callbacks run, _wait_job_completion never sees it drain"),
 "C10d": dict(property="C10", needs="a run of cancelled backlog futures longer than the number of wake-ups still to come, then a request for another max_workers: `return` instead of `continue` after a cancelled item (same statement as seed C01b), _wait_job_completion never sees pending_work_items drain"),
 "C11d": dict(property="C11", needs="the cleanup raises at the very MAYBE_UNLINK that brings a count to zero: the entry is now kept (count 0), the end-of-life sweep destroys whatever carries that name and later requests count from the stale 0"),
 "C12d": dict(property="C12", needs="tracker dead + the first tracked operation afterwards is starting a loky process + no free descriptor number below the old tracker fd: getfd() skips the liveness probe, the child is told a descriptor it never inherited"),
 "C14d": dict(property="C14", needs="another thread/process operating on the Event between the acquire(False) and the release of is_set(), which no longer holds the event's lock: wait() returns False on a set event, clear()/set() are lost or doubled"),
 "C15d": dict(property="C15", needs="a reducer given (job_reducers / result_reducers / dumps(reducers=)) for a type loky has its own reducer for (functools.partial, MethodType, method descriptors): loky's table is applied after the user's and wins"),
 "C13d": dict(property="C13", needs="loky_init_main start method + a main module creating a loky primitive at import time + the worker tree killed (kill_workers / broken pool): the main fix-up now runs before the inherited tracker fd is installed, the semaphore is registered with a private tracker that dies with the tree"),
 "C16d": dict(property="C16", needs="wrapped object (or instances of a wrapped class) defining __slots__ without __getstate__ + an enclosing plain pickler using protocol 0 or 1: the payload is now cloudpickled with the outer protocol"),
 "C17d": dict(property="C17", needs="cpu_count(only_physical_cores=True) first called without any limit below the OS count (probe cached), then a limit imposed (LOKY_MAX_CPU_COUNT, affinity, cgroup) and the call repeated: the new fast path returns the cached physical count before any limit is evaluated"),
 "C18d": dict(property="C18", needs="executor / LokyProcess created with a non-empty env= mapping, a variable of the parent's environment changed or deleted after the first spawn, then another spawn (respawn, resize): the overlay is merged in place into the caller's dict, later workers get a stale snapshot"),
 "C02d": dict(property="C02", needs="a worker dies holding processes_management_lock (idle-timeout path) while the manager thread is busy (done-callback): the manager now takes that lock before collecting the sentinels and never sees the death"),
 "C19d": dict(property="C19", needs="an executor constructed at depth == LOKY_MAX_DEPTH (or at depth >= 1 under fork) without submitting in the same try: the depth check moved from the constructor to the spawn site, creation succeeds and the first submit raises"),
 "C20d": dict(property="C20", needs="kill-type lifecycle while the feeder thread is blocked writing a large task into a full call-queue pipe: the kill flag is reset once honoured, join_executor_internals then skips closing the reader end (the F21 repair), feeder thread + 2 fds + 3 semaphores leak per lifecycle"),
 "C04e": dict(property="C04", needs="a done-callback (registered before the future completes) raising KeyboardInterrupt: it is re-raised by Future._invoke_callbacks and kills the manager thread (normal task) or the feeder thread (unsendable task)"),
 "C06e": dict(property="C06", needs="shutdown(wait=False, kill_workers=True) while every worker is busy and the caller keeps its reference: the manager is only woken when wait=True, the forced shutdown happens when a task happens to finish"),
 "C09e": dict(property="C09", needs="a worker crash with several futures pending; a caller told by one of them (TerminatedWorkerError) calls get_reusable_executor while the manager is still failing the others: the pool is flagged broken only after the futures were failed (reverse of C02a)"),
 "C13e": dict(property="C13", needs="a named semaphore (or tracked folder) whose name contains ':' and an owner that cannot clean up itself (SIGKILL): the tracker's request parser uses partition instead of rpartition and drops the registration"),
 "C14e": dict(property="C14", needs="Event.set() called twice without a clear() in between, then clear(): set() no longer drains the flag first, the flag semaphore counts the sets"),
 "C15e": dict(property="C15", needs="a task submitted under a pickler different from the worker's own default and a result whose pickling depends on the back-end (lambda): the worker restores its previous pickler before the result is sent"),
 "C16e": dict(property="C16", needs="a read of a double-underscore attribute (__name__, __defaults__, user data, an explicitly fetched special method) on the wrapper: __getattr__ refuses to forward such names"),
 "C18e": dict(property="C18", needs="a growing resize of an idle reusable executor with an initializer that fails in the added worker: the manager is woken before the new workers are spawned and goes back to sleep without their sentinels (reverse order of the F3 repair)"),
 "C08e": dict(property="C08", needs="the last submit of a history while one worker is busy and the other announces its idle-timeout exit: the pool top-up now runs before the task is registered, neither submit nor the manager sees a reason to re-spawn"),
 "C11e": dict(property="C11", needs="the same name counted under two resource types, or any leaked entry at end of life: dict.fromkeys gives the three per-type registries one shared dict"),
 "C17e": dict(property="C17", needs="an active cgroup quota AND an affinity mask strictly smaller than ceil(quota/period): the affinity is passed to the cgroup helper as its no-quota default and dropped from the final min"),
 "C19e": dict(property="C19", needs="two or more workers started in one _adjust_process_count call (first submit of a pool with max_workers >= 2, resize by more than one, several respawns): the depth increment stays inside the spawn loop, the k-th worker gets depth parent + k"),
 "C01e": dict(property="C01", needs="the last worker's idle-timeout notice is being handled by the manager (counts read before the worker is popped) when a submit lands: neither submit nor the manager re-spawns, the future never resolves (twin of C07b in another statement order)"),
 "C02e": dict(property="C02", needs="a worker re-spawned by submit() after an idle exit dies abruptly: the manager was woken before the re-spawn and went back to sleep without the new sentinel (revert of the F13 repair)"),
 "C03e": dict(property="C03", needs="the same wrap_non_picklable_objects wrapper sent with two submissions and a state change in between: its pickled bytes are memoised (same statement as C16c, seen through C03's clause)"),
 "C05e": dict(property="C05", needs="shutdown(wait=False) with work pending, then a waited shutdown (explicit or end of a with block): the executor has forgotten its manager thread, the second call returns at once"),
 "C07e": dict(property="C07", needs="shutdown(wait=False) with a job pending + the worker leaving on idle timeout: the executor's queue references are cleared although the manager's re-spawn builds the new worker from them; the worker dies on None.get, pool broken"),
 "C10e": dict(property="C10", needs="thread A asks another max_workers while thread B asks other executor arguments: _resize now runs after the executor lock was released, A resizes (and returns) the instance B has just shut down"),
 "C20e": dict(property="C20", needs="a worker terminated by a signal without a symbolic name (real-time signals 34..64) in a lifecycle: the exit-code formatter raises KeyError in the manager thread, which dies without reaping; each lifecycle leaves a worker, a feeder thread, pipes and semaphores"),
 "C01f": dict(property="C01", needs="a wake-up of the manager landing while it drains its wake-up pipe (flag reset before the drain), the cause of that wake-up producing no later inter-process event (task that fails to pickle, cancelled future), then ordinary work: its wake-ups are swallowed, the future stays pending"),
 "C03f": dict(property="C03", needs="map() over a function returning a list (empty, nested, list subclass) for an item alone in its chunk (chunksize 1 or the left-over chunk): the bare result is taken for a chunk list and spliced into the output"),
 "C04f": dict(property="C04", needs="a task that raises while its exception's __str__, or the __repr__ of its callable / an argument, raises too: a debug line formats them inside the worker's except block, the worker dies, the pool breaks"),
 "C05f": dict(property="C05", needs="no explicit shutdown: the script ends (interpreter exit) with an accepted task still being pickled and the only worker leaving on idle timeout: the manager no longer re-spawns once _global_shutdown is set, the task never runs, exit hangs"),
 "C08f": dict(property="C08", needs="get_reusable_executor(reuse=True) without max_workers on a pool partly (or wholly) drained by idle timeouts: 'unchanged' is computed from the workers currently registered, the executor is shrunk for good"),
 "C09f": dict(property="C09", needs="singleton created small, later grown by a reuse with the same arguments: the call queue was sized from the first max_workers, the grown pool cannot run the requested number of tasks at once"),
 "C10f": dict(property="C10", needs="growing resize with a finite idle timeout firing while the new workers are spawned (lock held): the worker now waits for the lock instead of staying another period and leaves as soon as the spawn ends"),
 "C13f": dict(property="C13", needs="two threads creating their first loky primitives at the same time: ensure_running returns at once when another thread holds the tracker lock, the registration is written to fd None and fails after the semaphore was created: the name stays for ever"),
 "C15f": dict(property="C15", needs="set_loky_pickler changed between submit() and the moment the manager builds the call item (backlog larger than the call queue, or a race): the submit-time pickler is no longer handed to the call item (regression of the earlier repair c17f367)"),
 "C16f": dict(property="C16", needs="a wrapped callable with rebinding state (instance attributes, function attributes): functools.update_wrapper copies the wrapped __dict__ into the wrapper at construction, reads through the wrapper return the values of wrap time"),
 "C18f": dict(property="C18", needs="an initializer that is a falsy callable object (callable container of optional hooks with __len__ == 0, __bool__ False): filtered out like None, no worker of the pool is initialised"),
 "C20f": dict(property="C20", needs="kill-type shutdown with a backlog (more tasks than call-queue slots) after workers fetched tasks: the work-id queue is no longer drained, the manager dies of KeyError after the kill and before join_executor_internals: feeder thread, 4 fds, 3 semaphores per lifecycle"),
 "C06f": dict(property="C06", needs="forced shutdown arriving while a worker is on its way out (idle timeout / shrink sentinel / memory-leak recycling: exit announced, released by the manager, process still running its exit handlers): the manager no longer joins it, it is in nobody's books, survives the kill and is never reaped"),
 "C20e": dict(property="C20", needs="a worker killed by a real-time signal (no signal.Signals member): the exit-code name lookup became a dict access under except ValueError, the manager dies composing the diagnostic and the lifecycle leaks workers, feeder thread, fds, semaphores"),
 "C20b": dict(property="C20", needs="kill-type lifecycle + worker with descendants one of which vanishes during the kill: kill_process_tree returns early, the worker is neither killed nor joined (child, fd, semaphore accumulate)"),
 "C02g": dict(property="C02", needs="pool emptied by idle-timeout exits, then a submit() that re-spawns: submit() now wakes the manager before spawning, the manager goes back to wait() with a sentinel list that lacks the new worker; that worker dies abruptly in its first task and nothing is woken: future pending, pool never flagged broken"),
 "C07g": dict(property="C07", needs="short idle timeout + a resize that spawns (grow, or top-up after timeouts): _resize calls _adjust_process_count without the management lock, a fresh worker reaches its idle timeout and announces its exit before the parent registered its pid; the manager pops None, never releases the exit lock, the clean exit is later reported as TerminatedWorkerError EXIT(0)"),
 "C11g": dict(property="C11", needs="a tracked name containing ':' (temp folder or memmap path): the tracker's line parsing became split(':', 2), the name is cut at its first ':' and the type becomes 'rest:type' -> unknown resource type; nothing is counted, destroyed or swept for that name"),
 "C12g": dict(property="C12", needs="tracker killed, and the next tracked operation of the process is a process start (no registration in between): get_preparation_data only calls ensure_running when no fd is known and Popen._launch no longer calls getfd(): the child receives the dead fd/pid, starts its own tracker, the tree has two"),
 "C14g": dict(property="C14", needs="BoundedSemaphore(n) pickled to a loky child, then an over-release by the child's copy: kind and maxvalue became class constants and are no longer carried in the pickle, BoundedSemaphore inherits SEM_VALUE_MAX, the copy is unbounded and n+1 holders are admitted"),
 "C19g": dict(property="C19", needs="LOKY_MAX_DEPTH=0 (unlimited) in the environment and nesting deeper than 10: the new env-int helper ends with `return value or default`, 0 becomes 10"),
}
DETECTED = json.load(open(os.path.join(ROOT, "seeded", "detected.json"))) if os.path.exists(os.path.join(ROOT, "seeded", "detected.json")) else {}
for name, meta in SEEDS.items():
    patch = f"/tmp/wt/{name}.patch.diff"
    for alt in (f"/tmp/wt/{name}.rebased2.diff", f"/tmp/wt/{name}.rebased.diff"):
        if os.path.exists(alt):
            patch = alt          # rebased onto the current /repo HEAD
            break
    if name == "C01a":
        patch = "/tmp/wt/C02a.rebased.diff"
    demo = f"/tmp/wt/{name}.demo.py"
    conf = f"/tmp/wt/{name}.confirm.log"
    if not os.path.exists(conf) or "tests exit" not in open(conf).read():
        if os.path.exists(f"/tmp/wt/{name}R.confirm.log"):
            conf = f"/tmp/wt/{name}R.confirm.log"
    if not (os.path.exists(patch) and os.path.exists(demo)):
        continue
    d = os.path.join(ROOT, "seeded", name)
    os.makedirs(d, exist_ok=True)
    shutil.copy(patch, os.path.join(d, "patch.diff"))
    m_note = "patch.diff applies to the /repo HEAD of the final commit of this session (rebased by hand where the surrounding code was changed by a fix: commit); original as written by the sub-agent: see confirm log"
    shutil.copy(demo, os.path.join(d, "demo.py"))
    ran = open(conf).read().strip().splitlines() if os.path.exists(conf) else ["(confirmation pending)"]
    m = dict(id=name, breaks_property=meta["property"], needs_to_manifest=meta["needs"],
             confirmed_by_me=ran,
             how_confirmed="tools/seed_confirm.sh: demo x2 on the clean worktree (exit 0), patch applied, demo x2 (exit != 0), full test-suite with the two always-failing tests deselected (-x, exit 0), patch reverted",
             detected_by=DETECTED.get(name, []), note=m_note)
    if "same_patch_as" in meta:
        m["same_patch_as"] = meta["same_patch_as"]
    json.dump(m, open(os.path.join(d, "meta.json"), "w"), indent=1)
    print("filed", name)
