"""Files confirmed seeded defects under /verif/seeded/<id>/ (patch.diff, demo, meta.json)."""
import json, os, shutil, subprocess, sys
ROOT = os.path.dirname(os.path.dirname(os.path.abspath(__file__)))
SEEDS = {
 "C01a": dict(property="C01", needs="a worker crash + a submit() landing between the failing of the pending futures and flag_as_broken (resubmit from a done-callback, or another thread woken by the failed future)", same_patch_as="C02a"),
 "C02a": dict(property="C02", needs="terminate_broken flags the pool broken only after failing the pending futures: a submit() in that window is accepted and its future never resolves (one preemption of the manager thread after a worker death)"),
 "C03a": dict(property="C03", needs="cancel() of a future that is still in the work-id backlog (more tasks submitted than workers + queue slots): the cancelled task's body still runs"),
 "C04a": dict(property="C04", needs="the feeder thread's pickling-error path must run between call_queue.put() and running_work_items += [id] in the manager thread (one preemption): feeder dies with ValueError, futures hang"),
 "C05a": dict(property="C05", needs="three threads: a submit() past its shutdown check while another thread calls shutdown() (flag set outside the lock) and the manager wakes on a result: the accepted task is dropped (two preemptions, the submitting thread starved meanwhile)"),
 "C06a": dict(property="C06", needs="forced shutdown arriving on an executor already flagged as shutting down (shutdown(wait=False) first, or escalation from a second thread): kill_workers is not recorded"),
 "C07a": dict(property="C07", needs="single remaining worker times out exactly while a submit lands after the manager's last dispatch pass: no re-spawn, task lost"),
 "C08a": dict(property="C08", needs="partially drained pool (some workers idled out while one is busy), then >= max_workers long tasks: submit no longer tops the pool up"),
 "C09a": dict(property="C09", needs="shutdown(wait=False) with work pending, then get_reusable_executor: the previous instance is not joined before a fresh one is returned"),
 "C10a": dict(property="C10", needs="growing resize + a freshly spawned worker dies before the manager re-reads its sentinels (manager woken before the spawn): _resize spins for ever"),
 "C11a": dict(property="C11", needs="MAYBE_UNLINK for a name the tracker does not know (defaultdict): phantom count -1 corrupts later counts and the end-of-life sweep"),
 "C12a": dict(property="C12", needs="UNREGISTER/MAYBE_UNLINK of an unknown name (e.g. after a tracker relaunch): KeyError escapes the narrowed handler, the tracker runs its end-of-life cleanup while the tree is alive"),
 "C14a": dict(property="C14", needs="notifier takes the lock between the waiter's lock release and its _sleeping_count.release(): lost wakeup"),
 "C15a": dict(property="C15", needs="plain 'pickle' back-end: loky's and the user's reducers are written into copyreg.dispatch_table (dropped .copy())"),
 "C16a": dict(property="C16", needs="non-callable object + keep_wrapper=True: the flag is lost in the non-callable branch, visible on the 1st (instances) or 2nd (class-wrapper instances) round trip"),
 "C17a": dict(property="C17", needs="fractional cgroup quota > 1 CPU that is the tightest limit: floor instead of ceil"),
 "C18a": dict(property="C18", needs="initializer configured + shutdown(wait=False) with work pending + a worker leaving by itself (idle timeout / memory leak): the re-spawned worker runs tasks without the initializer"),
 "C19a": dict(property="C19", needs="LOKY_MAX_DEPTH <= 0 (unlimited) + nested executor with the fork start method at depth >= 1: no LokyRecursionError"),
 "C20a": dict(property="C20", needs="broken executor: call queue never closed in the broken path, one feeder thread + 2 fds + 3 semaphores leak per broken lifecycle"),
}
DETECTED = json.load(open(os.path.join(ROOT, "seeded", "detected.json"))) if os.path.exists(os.path.join(ROOT, "seeded", "detected.json")) else {}
for name, meta in SEEDS.items():
    patch = f"/tmp/wt/{name}.patch.diff"
    demo = f"/tmp/wt/{name}.demo.py"
    conf = f"/tmp/wt/{name}.confirm.log"
    if not (os.path.exists(patch) and os.path.exists(demo)):
        continue
    d = os.path.join(ROOT, "seeded", name)
    os.makedirs(d, exist_ok=True)
    if not os.path.exists(os.path.join(d, "patch.diff")) or "--force" in sys.argv:
        shutil.copy(patch, os.path.join(d, "patch.diff"))
    shutil.copy(demo, os.path.join(d, "demo.py"))
    ran = open(conf).read().strip().splitlines() if os.path.exists(conf) else ["(confirmation pending)"]
    m = dict(id=name, breaks_property=meta["property"], needs_to_manifest=meta["needs"],
             confirmed_by_me=ran,
             how_confirmed="tools/seed_confirm.sh: demo x2 on the clean worktree (exit 0), patch applied, demo x2 (exit != 0), full test-suite with the two always-failing tests deselected (-x, exit 0), patch reverted",
             detected_by=DETECTED.get(name, []))
    if "same_patch_as" in meta:
        m["same_patch_as"] = meta["same_patch_as"]
    json.dump(m, open(os.path.join(d, "meta.json"), "w"), indent=1)
    print("filed", name)
