#!/bin/bash
# usage: seed_confirm.sh <name> [notests]   -- confirms a seeded defect in its scratch worktree /tmp/wt/<name>
# (patch /tmp/wt/<name>.patch.diff, demo /tmp/wt/<name>.demo.py); writes /tmp/wt/<name>.confirm.log
n=$1; wt=/tmp/wt/$n; log=/tmp/wt/$n.confirm.log
cd $wt || exit 2
# the demo as the sub-agent left it inside the worktree (child interpreters of some demos find
# loky through the script's own directory), else the copy next to the worktree
demo=/tmp/wt/$n.demo.py
[ -f $wt/demo_$n.py ] && demo=$wt/demo_$n.py
: > $log
git checkout -q -- loky tests 2>/dev/null
git apply --check /tmp/wt/$n.patch.diff >> $log 2>&1 || { echo "PATCH-DOES-NOT-APPLY" >> $log; exit 1; }
for i in 1 2; do
  PYTHONPATH=$wt setsid timeout -k 5 120 /venv/bin/python $demo > /tmp/wt/$n.demo_clean_$i.log 2>&1 < /dev/null
  echo "demo clean run $i exit=$?" >> $log
done
git apply /tmp/wt/$n.patch.diff
for i in 1 2; do
  PYTHONPATH=$wt setsid timeout -k 5 120 /venv/bin/python $demo > /tmp/wt/$n.demo_mut_$i.log 2>&1 < /dev/null
  echo "demo mutated run $i exit=$?" >> $log
done
if [ "$2" != "notests" ]; then
  PYTHONPATH=$wt setsid timeout -k 10 3000 /venv/bin/python -m pytest -q -p no:cacheprovider --timeout=900 -x --deselect tests/test_loky_module.py::test_cpu_count_cgroup_limit --deselect tests/test_reusable_executor.py::TestTerminateExecutor::test_sigkill_shutdown_leaks_workers > /tmp/wt/$n.confirm_tests.log 2>&1 < /dev/null
  echo "tests exit=$? : $(tail -1 /tmp/wt/$n.confirm_tests.log)" >> $log
fi
git checkout -q -- loky
echo DONE >> $log
