#!/bin/bash
# Runs every filed seed (seeded/<id>/patch.diff) against the quick check(s) expected to catch it.
# usage: seed_matrix.sh [ids...]   -> appends to /tmp/seed_matrix.log
declare -A CHK=( [C01a]=C02 [C02a]=C02 [C03a]=C03 [C04a]=C04 [C05a]=C05 [C06a]=C06 [C07a]=C07 [C08a]=C08 [C09a]=C09 [C10a]=C10
 [C11a]=C11 [C12a]=C12 [C13a]=C13 [C14a]=C14 [C15a]=C15 [C16a]=C16 [C17a]=C17 [C18a]=C18 [C19a]=C19 [C20a]=C20
 [C01b]=C01 [C02b]=C02 [C03b]=C03 [C04b]=C04 [C05b]=C05 [C06b]=C06 [C07b]=C07 [C08b]=C08 [C09b]=C10 [C10b]=C10
 [C11b]=C11 [C12b]=C12 [C13b]=C13 [C14b]=C14 [C15b]=C15 [C16b]=C16 [C17b]=C17 [C18b]=C18 [C19b]=C19 [C20b]=C06 )
ids="$@"; [ -z "$ids" ] && ids=$(ls /verif/seeded | grep '^C[0-9][0-9][a-z]$')
for n in $ids; do
  c=${CHK[$n]}
  [ -z "$c" ] && c=${n:0:3}          # by default the check of the seed's own property
  out=/tmp/seedm_${n}_$c.log
  timeout 1500 /verif/tools/run_seed.sh /verif/seeded/$n/patch.diff $c > $out 2>&1
  rc=$?
  sig=$(grep "signature:" $out | grep -v KNOWN | head -1 | cut -c1-160)
  echo "$n $c rc=$rc $sig" >> /tmp/seed_matrix.log
done
