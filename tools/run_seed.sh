#!/bin/bash
# usage: run_seed.sh <patchfile> <property id> [tier]   -- runs a check against /repo HEAD + patch in a scratch worktree
patch=$1; pid=$2; tier=${3:-quick}
wt=/tmp/wt/run_$$_$(basename $patch .diff)
git -C /repo worktree add -q --detach $wt HEAD || exit 2
( cd $wt && git apply $patch ) || { echo "PATCH DOES NOT APPLY"; git -C /repo worktree remove --force $wt; exit 3; }
mkdir -p /tmp/wt/seed_evidence; cd /verif && VF_EVIDENCE_DIR=/tmp/wt/seed_evidence VF_REPO=$wt /venv/bin/python -m vf.run $pid --tier $tier
rc=$?
git -C /repo worktree remove --force $wt
exit $rc
