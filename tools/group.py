import json, collections, sys
d=json.load(open(sys.argv[1]))
g=collections.defaultdict(lambda: collections.Counter())
for v in d: g[v['signature']][v['prog']]+=1
for s,c in sorted(g.items()):
    print(sum(c.values()), s); print('      ', dict(c))
