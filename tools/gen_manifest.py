"""Regenerates MANIFEST.json from the table below (claimed checks) + not_applicable for the rest."""
import json, os
ROOT = os.path.dirname(os.path.dirname(os.path.abspath(__file__)))
S_NOTE = ("modelled kernel (threads, semaphores, pipes, processes, clock; vf.sim.shims) bound to the real "
          "primitives by the differential conformance suite (vf.selftest); long (>1 s) timed waits expire only at "
          "quiescence (no-starvation assumption); complete up to the deviation bound stated per program in the "
          "evidence file; decision points are kernel operations and operations on the executor's shared containers")
S_TECH = "stateless deviation-bounded exhaustive exploration of schedules, crash points and timer expiries on the real loky sources under a controlled scheduler"
C = {
 "C01": ("S", "model_checking", "every execution of each driver program with at most d scheduling/kill/timeout deviations (under each scheduling policy) runs on the real loky sources; each must reach the end of the simulated interpreter exit with all futures terminal, no parent thread dead, no deadlock/livelock", S_NOTE, S_TECH),
 "C02": ("S", "model_checking", "a worker kill is placed at every decision point of every worker (bound 1; bound 2 in thorough), for several exit causes; every future must end with its own outcome or a BrokenProcessPool error, broken flag/exit codes consistent, all workers dead and reaped, no hang", S_NOTE, S_TECH),
 "C03": ("S", "model_checking", "submit/cancel programs and the full (chunksize, lengths) product of map calls are executed under all schedules/timeouts within the bound; results compared with a reference evaluation computed by the checker, body executions counted", S_NOTE, S_TECH),
 "C04": ("S", "model_checking", "every kind of task-level failure at several positions and queue fill levels, all schedules within the bound: each future must hold exactly its expected outcome, pool unbroken, slot semaphore restored", S_NOTE, S_TECH),
 "C05": ("S", "model_checking", "every shutdown form at every point of small programs, all schedules/timeouts within the bound (+ kills inside the shutdown phase, + submit racing with shutdown under a starvation policy at bound 2)", S_NOTE, S_TECH),
 "C06": ("S", "model_checking", "forced shutdown reached in every pool state of small programs (queued/running/blocked tasks, already flagged, escalation from a second thread), all schedules within the bound; call returns although blocked tasks never finish; futures fail with ShutdownExecutorError; workers dead and reaped", S_NOTE + "; the process-tree clause is decided in the simulator on every rooted tree with <= 4-5 processes (real kill_process_tree, psutil and pgrep paths), not on real nested processes", S_TECH),
 "C07": ("S", "model_checking", "idle timeouts fire at every decision point (T deviations) of programs mixing submissions, idle periods, resizes and shutdown: never broken, every task completes exactly once, exit status 0", S_NOTE, S_TECH),
 "C08": ("S", "model_checking", "monitor evaluated at every decision point of every explored execution (bodies inside a task and registered workers <= max_workers in force) + saturation programs that must reach max_workers simultaneous bodies at quiescence", S_NOTE, S_TECH),
 "C10": ("S", "model_checking", "all (old,new) size pairs with in-flight work and timeouts; deviations P/T/K at every step of _resize, also under an eager-manager policy", S_NOTE, S_TECH),
 "C20": ("S", "model_checking", "each lifecycle is run twice in the same simulated process, releasing the executor and letting the system settle after each; the parent's fd table, threads, children (zombies) and linked semaphores must not grow, and be empty after clean lifecycles; all schedules within the bound", S_NOTE + "; plus the same lifecycles on real processes (/proc/self/fd, threads, children incl. zombies, /dev/shm semaphores after 1 vs 3 repetitions)", S_TECH + " + enumeration of lifecycle sequences on real processes"),
 "C11": ("Q", "model_checking", "explicit-state BFS over request histories of the real tracker loop against a reference model of the counting rule; end-of-file after every history", "cleanup functions, open(), signal, sys, warnings of the tracker module substituted by recorders; depth bound stated in the evidence", "explicit-state BFS over histories of the real main() loop with a reference model (every transition executed on the implementation)"),
 "C14": ("C14", "model_checking", "complete stateful exploration (visited-set DFS) of all interleavings and all timer-firing instants of small harnesses over the real synchronize.py, threads and pickled per-process copies", "SimSemLock == _multiprocessing.SemLock as bound by vf.selftest; kernel fairness not assumed", "complete explicit-state exploration of the implementation with state hashing (frames + kernel objects)"),
 "C09": ("S", "model_checking", "BFS over histories of get_reusable_executor calls, crashes, shutdowns (waited or not), idle periods and submissions (state = documented decision state + what the implementation can tell apart), each history executed on the real code and compared step by step with a reference model; racing callers from 2-3 threads explored within the deviation bound", S_NOTE, "explicit-state BFS over operation histories executed on the implementation + deviation-bounded schedule exploration"),
 "C12": ("R", "fault_enumeration", "real process trees: depth x start method x repeated tracker deaths, signals, end-of-life ordering with the root killed while a child lives; ensure_running decision table over a fake os; tracker-loop survival over all 2-request histories", "one OS schedule per real run; signals are delivered to an idle tracker", "enumeration of fault sequences and configurations on real processes + exhaustive small-history enumeration of the tracker loop"),
 "C13": ("R", "fault_enumeration", "real trees: 5 histories x 3-4 endings, /dev/shm observed until the tracker has cleaned up; plus every execution within bound 1 of 8 lifecycle programs in engine S with the tracker message log checked against the simulated semaphore namespace", "the harness ends the remaining workers itself after the root ended; parent kill points other than end-of-history are not enumerated", "enumeration of histories x endings on real processes + deviation-bounded exploration in the simulator"),
 "C15": ("Q", "exploration", "all histories up to depth 3-4 over pickler selections and dumps() with 3 reducer maps, registries snapshotted after every operation; all built-in-reducer object kinds under both back-ends; executor reducer wiring; pickler recorded in call items", "worker-side use of the recorded pickler is not exercised on real processes", "exhaustive enumeration of operation histories / finite products on the real functions"),
 "C18": ("R", "fault_enumeration", "real children: every subset of extra parent descriptors x inheritable flag, env overlays (also observed at interpreter start-up), exit codes and signals, __main__ re-import per start method; engine S: no task runs in a worker that has not run the initializer, over all executions within the bound of programs with respawns, resizes and shutdown forms", "one OS schedule per real run; the schedule quantifier of the initializer clause is carried by engine S", "enumeration of configurations on real processes + deviation-bounded exploration in the simulator"),
 "C19": ("Q", "exploration", "full product MAX_DEPTH x depth x start method on the real _check_max_depth and constructor; depth shipped to / seen by every worker (also inside its initializer) in all executions within the bound of programs with respawns and resizes at parent depths 0..3; real chains of nested executors (27-58 configurations of limit x API x worker provenance x start method) one level beyond the limit", "simulated workers do not nest executors; real chains run one free schedule per configuration", "exhaustive enumeration of a finite configuration product + deviation-bounded exploration in the simulator"),
 "C16": ("Q", "exploration", "full product of object kinds x keep_wrapper x round trips x wrapper nesting, behaviour compared with the wrapped object", "objects live in an unimportable module namespace like a script's __main__", "exhaustive enumeration of a finite configuration product on the real functions"),
 "C17": ("Q", "exploration", "complete product (48 000 configurations) of OS count, affinity source, cgroup layout/ratio, override, physical-core probe outcome, only_physical_cores against an independent reference formula", "linux path; environment substituted at the level of the values loky reads", "exhaustive enumeration of a finite configuration product on the real function"),
}
checks = []
for pid, (eng, lvl, text, note, tech) in sorted(C.items()):
    checks.append({
        "property_id": pid,
        "quick_cmd": f"/venv/bin/python -m vf.run {pid} --tier quick",
        "thorough_cmd": f"/venv/bin/python -m vf.run {pid} --tier thorough",
        "evidence_file": f"evidence/{pid}.json",
        "replay_cmd_template": f"/venv/bin/python -m vf.run {pid} --replay {{path}}",
        "engine": eng,
        "level_claimed": {"category": lvl, "text": text, "design_ref": f"DESIGN.md section 5 {pid}"},
        "level_note": note, "technique": tech})
na = [{"property_id": f"C{i:02d}", "reason": "check not yet committed in this session (under construction)"}
      for i in range(1, 21) if f"C{i:02d}" not in C]
m = {"version": 1,
     "setup_cmd": "/venv/bin/python -m vf.selftest",
     "hooks": {"guard": "LOKY_VERIF", "enable": "export LOKY_VERIF=1 (hooks are inert unless a plan file is named by LOKY_VERIF_PLAN)",
               "baseline_off_cmd": "cd /repo && env -u LOKY_VERIF -u LOKY_VERIF_PLAN /venv/bin/python -m pytest -ra -q -p no:cacheprovider --timeout=900 --continue-on-collection-errors",
               "source_commits": ["d8c53a0"], "add_only": True},
     "engines": [
        {"name": "S", "path": "vf/sim", "serves_properties": [p for p, v in C.items() if v[0] == "S"], "kind_free_text": "controlled-scheduler exploration of the real loky sources over a modelled kernel (deviation-bounded stateless DFS, scheduling policies fifo/starve/eager)"},
        {"name": "Q", "path": "vf/q + vf/checks", "serves_properties": [p for p, v in C.items() if v[0] == "Q"], "kind_free_text": "sequential explicit-state / product enumeration on the real functions with substituted module globals"},
        {"name": "R", "path": "vf/real", "serves_properties": [p for p, v in C.items() if v[0] == "R"] + ["C02"], "kind_free_text": "real processes in their own session with LOKY_VERIF fault plans (kill/exit/pause at named points), hard timeouts as hang oracle, clean-up by process group"},
        {"name": "C14", "path": "vf/c14engine.py", "serves_properties": ["C14"], "kind_free_text": "complete stateful exploration of synchronize.py harnesses"}],
     "checks": checks, "not_applicable": na,
     "notes": "python -m vf.run <id> --tier quick|thorough; exit 0 held, 1 VIOLATION, 2 internal error. known_findings.json lists genuine defects (open = known finding, fixed = repaired by a fix: commit)."}
json.dump(m, open(os.path.join(ROOT, "MANIFEST.json"), "w"), indent=1)
print("checks", len(checks), "n/a", len(na))
