"""Exploratory: line-granular bound-1 exploration of a check's programs.  usage: line_explore.py Cxx"""
import importlib, sys, time, collections
sys.path.insert(0, "/verif")
from vf.sim import explore
cid = sys.argv[1]
mod = importlib.import_module(f"vf.checks.{cid.lower()}")
plan = mod.plan("quick")
pool = explore.Pool(mod.ORACLE, getattr(mod, "MONITORS", None))
seen = set()
tot = collections.Counter()
t0 = time.time()
for prog, bound, opts in plan:
    if prog["name"] in seen:
        continue
    seen.add(prog["name"])
    o = dict(opts); o["kinds"] = ("P",); o["lines"] = "*"; o["horizon"] = 400000
    for k in ("p_scope", "p_when", "t_scope", "t_when", "t_cur"):
        o.pop(k, None)
    t1 = time.time()
    s = explore.explore(pool, prog, 1, o, mod.ORACLE)
    sigs = collections.Counter(v["signature"] for v in s.violations)
    print(f"{prog['name']}: exec={s.executions} verdicts={dict(s.verdicts)} viol={len(s.violations)} internal={len(s.internal)} {time.time()-t1:.1f}s", flush=True)
    for k, n in sigs.most_common(8):
        print("    ", n, k[:220])
    for i in s.internal[:2]:
        print("    INTERNAL", str(i)[:400])
    tot.update(sigs)
pool.close()
print("TOTAL", round(time.time() - t0), "s")
for k, n in tot.most_common():
    print(n, k[:250])
