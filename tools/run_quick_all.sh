#!/bin/bash
# runs the quick tier of every check sequentially; summary in $1 (default /tmp/wt/quick_all.log)
out=${1:-/tmp/wt/quick_all.log}; : > $out
cd /verif
for c in ${ORDER:-C01 C02 C03 C04 C05 C06 C07 C08 C09 C10 C11 C12 C13 C14 C15 C16 C17 C18 C19 C20}; do
  s=$(date +%s)
  /venv/bin/python -m vf.run $c --tier ${TIER:-quick} > /tmp/wt/qa_${TIER:-quick}_$c.out 2>&1
  rc=$?
  echo "$c exit $rc $(( $(date +%s) - s ))s viol_lines=$(grep -c '^VIOLATION' /tmp/wt/qa_${TIER:-quick}_$c.out) $(tail -1 /tmp/wt/qa_${TIER:-quick}_$c.out | cut -c1-160)" >> $out
done
echo ALLDONE >> $out
